package main

import (
	"context"
	"encoding/binary"
	"fmt"
	"math/rand"
	"strings"
	"sync"
	"time"

	bpmn "github.com/olive-io/bpmn/v2"
	"github.com/olive-io/bpmn/v2/pkg/id"
	"github.com/olive-io/bpmn/v2/pkg/tracing"
)

func init() { commands["c20"] = runC20 }

type id10 [10]byte

func toID(b []byte) (x id10, ok bool) {
	if len(b) != 10 {
		return x, false
	}
	copy(x[:], b)
	return x, true
}

func decodeSno(x id10) (ts int64, tick bool, part int, seq int) {
	u := binary.BigEndian.Uint64(x[:8])
	return int64(u >> 25), (u>>24)&1 == 1, int(x[6])<<8 | int(x[7]), int(x[8])<<8 | int(x[9])
}

// draw concurrently from the given generators for the given duration; returns all ids per (generator, goroutine)
func c20Draw(gens []id.IGenerator, goroutines int, d time.Duration, maxPer int) [][][]byte {
	out := make([][][]byte, len(gens)*goroutines)
	var wg sync.WaitGroup
	start := make(chan struct{})
	deadline := time.Now().Add(d)
	for gi, g := range gens {
		for k := 0; k < goroutines; k++ {
			wg.Add(1)
			go func(slot int, g id.IGenerator) {
				defer wg.Done()
				<-start
				buf := make([][]byte, 0, 1<<16)
				for n := 0; n < maxPer; n++ {
					if n&1023 == 0 && time.Now().After(deadline) {
						break
					}
					buf = append(buf, g.New().Bytes())
				}
				out[slot] = buf
			}(gi*goroutines+k, g)
		}
	}
	close(start)
	wg.Wait()
	return out
}

func c20Dups(all [][][]byte) (total int, dups int, example string) {
	seen := make(map[string]struct{}, 1<<20)
	for _, l := range all {
		for _, b := range l {
			total++
			k := string(b)
			if _, ok := seen[k]; ok {
				dups++
				if example == "" {
					example = fmt.Sprintf("%x", b)
					if x, ok := toID(b); ok {
						ts, tk, p, s := decodeSno(x)
						example += fmt.Sprintf(" (timestamp=%d tick=%v partition=%d sequence=%d)", ts, tk, p, s)
					}
				}
			} else {
				seen[k] = struct{}{}
			}
		}
	}
	return
}

func runC20(env *Env) {
	rep := &Report{Property: "C20",
		Rule: "real generators: one sno generator drawn by 1/4/16/64 goroutines for a fixed duration; 2..8 generators alive at once; snapshot/restore at seeded points of the draw history; fallback generators (concurrent draws, several generators created concurrently); instance and flow ids observed in engine traces with the default generator; every id set searched for duplicates, single-goroutine sequences decoded and checked by the model acceptor; non-trivial = concurrent draw, several generators or a restore; distinct by scenario"}
	ctx, cancel := context.WithCancel(context.Background())
	defer cancel()
	tr := tracing.NewTracer(ctx)
	dur := 700 * time.Millisecond
	if env.Thorough() {
		dur = 6 * time.Second
	}
	rng := rand.New(rand.NewSource(env.Seed))
	newGen := func() id.IGenerator {
		g, err := id.GetSno().NewIdGenerator(ctx, tr)
		must(err)
		return g
	}
	var items []string
	seqItem := func(l [][]byte) {
		if len(l) > 3000 {
			l = l[:3000]
		}
		var sb []string
		var t0 int64
		for i, b := range l {
			x, ok := toID(b)
			if !ok {
				return
			}
			ts, tk, _, s := decodeSno(x)
			if i == 0 {
				t0 = ts - 1
			}
			sb = append(sb, fmt.Sprintf("(%d,%v,%d)", ts-t0, tk, s))
		}
		items = append(items, "["+strings.Join(sb, ";")+"]")
	}
	// A: one generator, G goroutines
	for _, G := range []int{1, 4, 16, 64} {
		cs := fmt.Sprintf("one sno generator, %d goroutines drawing concurrently for %v", G, dur)
		env.Current(cs)
		all := c20Draw([]id.IGenerator{newGen()}, G, dur, 1<<22)
		total, dups, ex := c20Dups(all)
		rep.Evaluations += total
		rep.Count(fmt.Sprintf("single_G%d_ids", G))
		rep.Distribution[fmt.Sprintf("single_G%d_ids", G)] = total
		if G > 1 {
			rep.Nontrivial++
		}
		if dups > 0 {
			rep.Violate("C20-duplicate", cs, fmt.Sprintf("%d duplicate ids among %d, e.g. %s", dups, total, ex))
		}
		if G == 1 {
			seqItem(all[0])
		}
		rep.Sample(fmt.Sprintf("%s -> %d ids, %d duplicates", cs, total, dups))
	}
	// B: several generators alive at once
	for _, K := range []int{2, 8} {
		cs := fmt.Sprintf("%d sno generators alive at once, 2 goroutines each, for %v", K, dur/2)
		env.Current(cs)
		gens := []id.IGenerator{}
		for i := 0; i < K; i++ {
			gens = append(gens, newGen())
		}
		all := c20Draw(gens, 2, dur/2, 1<<21)
		total, dups, ex := c20Dups(all)
		rep.Evaluations += total
		rep.Nontrivial++
		rep.Distribution[fmt.Sprintf("multi_K%d_ids", K)] = total
		if dups > 0 {
			rep.Violate("C20-duplicate", cs, fmt.Sprintf("%d duplicate ids among %d, e.g. %s", dups, total, ex))
		}
	}
	// C: snapshot / restore at seeded points
	nRestore := 12
	if env.Thorough() {
		nRestore = 100
	}
	for i := 0; i < nRestore; i++ {
		g := newGen()
		k := 1 + rng.Intn(5000)
		cs := fmt.Sprintf("draw %d ids, snapshot, restore, draw %d more from the restored generator", k, k)
		env.Current(cs)
		var all [][][]byte
		first := make([][]byte, 0, k)
		for j := 0; j < k; j++ {
			first = append(first, g.New().Bytes())
		}
		snap, err := g.Snapshot()
		if err != nil {
			rep.Violate("C20-restore", cs, "snapshot: "+err.Error())
			continue
		}
		if rng.Intn(2) == 0 {
			time.Sleep(time.Duration(rng.Intn(6)) * time.Millisecond)
		}
		r, err := id.GetSno().RestoreIdGenerator(ctx, snap, tr)
		if err != nil {
			rep.Violate("C20-restore", cs, "restore: "+err.Error())
			continue
		}
		second := make([][]byte, 0, k)
		for j := 0; j < k; j++ {
			second = append(second, r.New().Bytes())
		}
		all = append(all, first, second)
		total, dups, ex := c20Dups(all)
		rep.Evaluations += total
		rep.Nontrivial++
		rep.Count("restore_cases")
		if dups > 0 {
			rep.Violate("C20-restore", cs, fmt.Sprintf("%d ids of the restored generator repeat earlier output, e.g. %s", dups, ex))
		}
		if i < 4 {
			seqItem(append(append([][]byte{}, first...), second...))
		}
	}
	// D: fallback generators
	{
		cs := "8 fallback generators created concurrently, 4 goroutines each"
		env.Current(cs)
		gens := make([]id.IGenerator, 8)
		var wg sync.WaitGroup
		for i := range gens {
			wg.Add(1)
			go func(i int) { defer wg.Done(); gens[i] = id.NewFallbackGenerator() }(i)
		}
		wg.Wait()
		all := c20Draw(gens, 4, dur/4, 1<<18)
		total, dups, ex := c20Dups(all)
		rep.Evaluations += total
		rep.Nontrivial++
		rep.Distribution["fallback_ids"] = total
		if dups > 0 {
			rep.Violate("C20-fallback-duplicate", cs, fmt.Sprintf("%d duplicate ids among %d, e.g. %s", dups, total, ex))
		}
	}
	// E: ids observed in engine traces with the default generator
	{
		cs := "instance and flow ids in the traces of 30 instances created with the default id generator"
		env.Current(cs)
		seen := map[string]string{}
		dup := ""
		n := 0
		var mu sync.Mutex
		for i := 0; i < 30; i++ {
			defs, err := ParseDefs(c03Prog(3, 3).XML(""))
			must(err)
			ictx, icancel := context.WithCancel(context.Background())
			gen := newGen()
			in, err := StartInst(defs, InstOpt{Opts: []bpmn.Option{bpmn.WithIdGenerator(gen)}, Raw: func(t tracing.ITrace) {
				var s string
				switch x := t.(type) {
				case bpmn.NewFlowTrace:
					s = "flow:" + x.FlowId.String()
				case bpmn.InstantiationTrace:
					return
				default:
					return
				}
				mu.Lock()
				if _, ok := seen[s]; ok && dup == "" {
					dup = s
				}
				seen[s] = s
				n++
				mu.Unlock()
			}})
			must(err)
			inst := "inst:" + in.P.Id().String()
			mu.Lock()
			if _, ok := seen[inst]; ok && dup == "" {
				dup = inst
			}
			seen[inst] = inst
			mu.Unlock()
			for j := 0; j < 3; j++ {
				in.Answer(fmt.Sprintf("T%d", j), tmoStep)
			}
			in.WaitUntil(tmoStep, func(l []Ev) bool { return countEv(l, "task", "U2") > 0 && countEv(l, "task", "U1") > 0 && countEv(l, "task", "U0") > 0 })
			in.Close()
			icancel()
			_ = ictx
		}
		rep.Evaluations += n
		rep.Distribution["engine_trace_ids"] = n
		if dup != "" {
			rep.Violate("C20-duplicate", cs, "id repeated within the program run: "+dup)
		}
	}
	// L: generators of different lifetimes. Each is made under a context of its own; the contexts of some have ended
	// (their owner — a process instance, an engine — is gone) when the next ones are made. A generator whose context
	// has ended still issues ids (its owner's last traces are being written), and what it issues must not be what a
	// younger generator issues
	for round := 0; round < 3 && !rep.Saturated(); round++ {
		cs := fmt.Sprintf("6 generators made one after the other, the context of every other one ended before the next is made, then all drawn from together (round %d)", round)
		env.Current(cs)
		var gens []id.IGenerator
		var cancels []context.CancelFunc
		for k := 0; k < 6; k++ {
			gctx, gcancel := context.WithCancel(context.Background())
			g, err := id.GetSno().NewIdGenerator(gctx, tr)
			must(err)
			gens = append(gens, g)
			cancels = append(cancels, gcancel)
			for j := 0; j < 50; j++ {
				g.New()
			}
			if k%2 == 0 {
				gcancel()
				time.Sleep(3 * time.Millisecond) // whatever watches the context has seen it end
			}
		}
		// (Model/Partitions.v: the generators of one program have pairwise different partitions)
		partOf := map[int]int{}
		for k, g := range gens {
			if x, ok := toID(g.New().Bytes()); ok {
				_, _, part, _ := decodeSno(x)
				if k0, seen := partOf[part]; seen {
					rep.Violate("C20-duplicate", cs, fmt.Sprintf("generators %d and %d of this program issue ids of the same partition %d", k0, k, part))
				}
				partOf[part] = k
			}
		}
		all := c20Draw(gens, 1, dur/8, 1<<17)
		for _, c := range cancels {
			c()
		}
		total, dups, ex := c20Dups(all)
		rep.Evaluations += total
		rep.Nontrivial++
		rep.Count("lifetimes")
		rep.Distribution["lifetimes_ids"] += total
		if dups > 0 {
			rep.Violate("C20-duplicate", cs, fmt.Sprintf("%d duplicate ids among %d, e.g. %s", dups, total, ex))
		}
	}
	// F (last: it uses up the program's pool of generator partitions): a long-running program has made more
	// generators than there are partitions; the generators made after that (the engine falls back to its local
	// generator when the default one cannot be had) are drawn from concurrently
	{
		cs := "more default generators made than the library has partitions, then 8 further generators drawn from concurrently"
		env.Current(cs)
		made := 0
		var early []id.IGenerator
		for ; made < 70000; made++ {
			g, err := id.GetSno().NewIdGenerator(ctx, tr)
			if err != nil {
				break
			}
			if made < 4 || (made >= 65536 && made < 65540) {
				early = append(early, g) // long-lived ones, and the ones made exactly 65536 generators later
			}
		}
		gens := make([]id.IGenerator, 8)
		late := 0
		for i := range gens {
			g, err := id.GetSno().NewIdGenerator(ctx, tr)
			if err != nil {
				g = id.NewFallbackGenerator()
			} else {
				late++
			}
			gens[i] = g
		}
		if len(early) > 4 {
			// the library kept handing generators out: the first four are drawn from together with the four made 65536
			// generators after them
			gens = append(gens, early...)
		}
		all := c20Draw(gens, 2, dur/4, 1<<17)
		total, dups, ex := c20Dups(all)
		rep.Evaluations += total
		rep.Nontrivial++
		rep.Distribution["late_generator_ids"] = total
		rep.Distribution["generators_made_before"] = made
		rep.Distribution["late_generators_from_the_default_builder"] = late
		if dups > 0 {
			rep.Violate("C20-duplicate", cs, fmt.Sprintf("%d generators were made first; the 8 made afterwards issued %d duplicate ids among %d, e.g. %s", made, dups, total, ex))
		}
	}
	env.WriteCases(rep, "", "Corr.C20corr", "list (Z * bool * Z)", items, "c20_mismatches", "Open Scope Z_scope.")
	env.WriteReport(rep)
}
