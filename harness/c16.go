package main

import (
	"github.com/olive-io/bpmn/v2/pkg/expression/expr"
	"github.com/olive-io/bpmn/v2/pkg/data"
	"context"
	"fmt"
	"math"
	"math/big"
	"math/rand"
	"sort"
	"strconv"
	"strings"
	"sync"

	"github.com/olive-io/bpmn/schema"
	bpmn "github.com/olive-io/bpmn/v2"
)

func init() { commands["c16"] = runC16 }

// fixed struct types (json names in alphabetical order so that sorted-key order = field order)
type c16S1 struct {
	A int    `json:"a"`
	B string `json:"b"`
}
type c16S2 struct {
	F float64        `json:"f"`
	L []int          `json:"l"`
	M map[string]any `json:"m"`
	P *c16S1         `json:"p"`
	U uint16         `json:"u"`
}

type c16Dict struct {
	ids map[string]int
}

func (d *c16Dict) id(s string) int {
	if v, ok := d.ids[s]; ok {
		return v
	}
	d.ids[s] = len(d.ids) + 1
	return d.ids[s]
}

type c16Gen struct {
	rng  *rand.Rand
	keys *c16Dict
	lits *c16Dict
	flts *c16Dict
}

func (g *c16Gen) strTerm(s string) string {
	switch s {
	case "true":
		return "STrue"
	case "false":
		return "SFalse"
	}
	// a decimal numeral, with or without leading zeros, is the number it denotes
	if z, err := strconv.ParseInt(s, 10, 64); err == nil && s[0] != '+' {
		return fmt.Sprintf("(SNum (%d))", z)
	}
	return fmt.Sprintf("(SLit %d%%N)", g.lits.id(s))
}

func (g *c16Gen) flTerm(f float64) string {
	if math.IsNaN(f) || math.IsInf(f, 0) {
		return fmt.Sprintf("(FBad %d%%N)", g.flts.id(fmt.Sprint(math.Float64bits(f))))
	}
	if f == math.Trunc(f) && math.Abs(f) < 1e19 {
		z, _ := new(big.Float).SetFloat64(f).Int(nil)
		return fmt.Sprintf("(FInt (%s))", z.String())
	}
	return fmt.Sprintf("(FId %d%%N)", g.flts.id(fmt.Sprint(math.Float64bits(f))))
}

var c16Ints = []int64{0, 1, -1, 7, 127, -128, 32767, 1 << 31, -(1 << 31), 1 << 53, 1<<53 + 1, -(1<<53 + 1), 1<<62 + 1, math.MaxInt64, math.MinInt64, 123456789012}
var c16Strs = []string{"x", "héllo wörld", "x\n\"quoted\"\\", "日本語", "x<&>", "true", "false", "42", "-7", "x 😀", "010", "0089", "-007", "000"}
var c16Flts = []float64{0, 1.5, -0.25, 3, 1e-9, 1e300, 0.1, -123456.789, math.MaxFloat64, 5e-324}

// scalar returns a Go scalar value and its gv term. small: keep nested integers exactly representable
func (g *c16Gen) scalar(nested bool, small bool) (any, string) {
	r := g.rng
	switch r.Intn(8) {
	case 0, 1:
		z := c16Ints[r.Intn(len(c16Ints))]
		if small && (z > 1<<53 || z < -(1<<53)) {
			z = z % (1 << 40)
		}
		term := fmt.Sprintf("(VInt (%d))", z)
		switch r.Intn(5) {
		case 0:
			if z >= math.MinInt8 && z <= math.MaxInt8 {
				return int8(z), term
			}
		case 1:
			if z >= math.MinInt16 && z <= math.MaxInt16 {
				return int16(z), term
			}
		case 2:
			if z >= math.MinInt32 && z <= math.MaxInt32 {
				return int32(z), term
			}
		case 3:
			return int64(z), term
		}
		if z >= math.MinInt && z <= math.MaxInt {
			return int(z), term
		}
		return z, term
	case 2:
		z := c16Ints[r.Intn(len(c16Ints))]
		if z < 0 {
			z = -(z + 1)
		}
		if small && z > 1<<53 {
			z = z % (1 << 40)
		}
		term := fmt.Sprintf("(VUint (%d))", z)
		switch r.Intn(5) {
		case 0:
			if z <= math.MaxUint8 {
				return uint8(z), term
			}
		case 1:
			if z <= math.MaxUint16 {
				return uint16(z), term
			}
		case 2:
			if z <= math.MaxUint32 {
				return uint32(z), term
			}
		case 3:
			return uint64(z), term
		}
		return uint(z), term
	case 3:
		f := c16Flts[r.Intn(len(c16Flts))]
		if !nested && r.Intn(4) == 0 { // float32 only at top level: nested float32 is re-read from its short decimal form
			f32 := float32(f)
			if !math.IsInf(float64(f32), 0) {
				return f32, "(VFloat " + g.flTerm(float64(f32)) + ")"
			}
		}
		if !nested && r.Intn(10) == 0 {
			f = math.NaN()
		}
		return f, "(VFloat " + g.flTerm(f) + ")"
	case 4, 5:
		s := c16Strs[r.Intn(len(c16Strs))]
		return s, "(VStr " + g.strTerm(s) + ")"
	case 6:
		b := r.Intn(2) == 0
		return b, fmt.Sprintf("(VBool %v)", b)
	default:
		return nil, "VNil"
	}
}

func (g *c16Gen) value(depth int, small bool) (any, string) { return g.valueAt(depth, small, true) }

func (g *c16Gen) valueAt(depth int, small bool, top bool) (any, string) {
	r := g.rng
	if depth <= 0 || r.Intn(3) == 0 {
		return g.scalar(!top, small)
	}
	switch r.Intn(7) {
	case 0: // []any
		n := r.Intn(4)
		l := make([]any, n)
		ts := make([]string, n)
		for i := range l {
			l[i], ts[i] = g.valueAt(depth-1, small, false)
		}
		return l, "(VSlice [" + strings.Join(ts, ";") + "])"
	case 1: // []int
		n := r.Intn(4)
		l := make([]int, n)
		ts := make([]string, n)
		for i := range l {
			l[i] = r.Intn(1000) - 500
			ts[i] = fmt.Sprintf("VInt (%d)", l[i])
		}
		return l, "(VSlice [" + strings.Join(ts, ";") + "])"
	case 2: // map[string]any
		n := r.Intn(4)
		m := map[string]any{}
		tm := map[string]string{}
		for i := 0; i < n; i++ {
			k := c16Strs[r.Intn(4)] + fmt.Sprint(r.Intn(3))
			m[k], tm[k] = g.valueAt(depth-1, small, false)
		}
		return m, "(VMap [" + g.kvTerms(tm) + "])"
	case 3:
		s := c16S1{A: r.Intn(100) - 50, B: c16Strs[r.Intn(len(c16Strs))]}
		return s, g.s1Term(s)
	case 4:
		s := c16S2{F: c16Flts[r.Intn(len(c16Flts))], U: uint16(r.Intn(70000) % 65536)}
		if r.Intn(2) == 0 {
			s.L = []int{1, -2, 3}
		}
		if r.Intn(2) == 0 {
			s.M = map[string]any{"k": "v", "n": 5}
		}
		if r.Intn(2) == 0 {
			s.P = &c16S1{A: 9, B: "x"}
		}
		return s, g.s2Term(s)
	case 5: // pointer
		v, t := g.valueAt(depth-1, small, false)
		switch x := v.(type) {
		case int:
			return &x, "(VPtr " + t + ")"
		case string:
			return &x, "(VPtr " + t + ")"
		case c16S1:
			return &x, "(VPtr " + t + ")"
		case c16S2:
			return &x, "(VPtr " + t + ")"
		case []any:
			return &x, "(VPtr " + t + ")"
		case map[string]any:
			return &x, "(VPtr " + t + ")"
		case bool:
			if r.Intn(3) == 0 {
				p := &x
				return &p, "(VPtr (VPtr " + t + "))"
			}
			return &x, "(VPtr " + t + ")"
		}
		return v, t
	default:
		switch r.Intn(3) {
		case 0:
			return (*int)(nil), "VNilPtr"
		case 1:
			return (*c16S1)(nil), "VNilPtr"
		default:
			return make(chan int), "VOther"
		}
	}
}

func (g *c16Gen) kvTerms(tm map[string]string) string {
	keys := []string{}
	for k := range tm {
		keys = append(keys, k)
	}
	sort.Strings(keys)
	out := []string{}
	for _, k := range keys {
		out = append(out, fmt.Sprintf("(%d%%N, %s)", g.keys.id(k), tm[k]))
	}
	return strings.Join(out, ";")
}

func (g *c16Gen) s1Term(s c16S1) string {
	return fmt.Sprintf("(VStruct [(%d%%N, VInt (%d)); (%d%%N, VStr %s)])", g.keys.id("a"), s.A, g.keys.id("b"), g.strTerm(s.B))
}

func (g *c16Gen) s2Term(s c16S2) string {
	l := "VSlice []"
	if s.L != nil {
		ts := []string{}
		for _, x := range s.L {
			ts = append(ts, fmt.Sprintf("VInt (%d)", x))
		}
		l = "VSlice [" + strings.Join(ts, ";") + "]"
	} else {
		l = "VNil" // nil slice field encodes as null
	}
	m := "VNil"
	if s.M != nil {
		m = fmt.Sprintf("VMap [(%d%%N, VStr %s); (%d%%N, VInt 5)]", g.keys.id("k"), g.strTerm("v"), g.keys.id("n"))
	}
	p := "VNilPtr"
	if s.P != nil {
		p = "VPtr " + g.s1Term(*s.P)
	}
	return fmt.Sprintf("(VStruct [(%d%%N, VFloat %s); (%d%%N, %s); (%d%%N, %s); (%d%%N, %s); (%d%%N, VUint (%d))])",
		g.keys.id("f"), g.flTerm(s.F), g.keys.id("l"), l, g.keys.id("m"), m, g.keys.id("p"), p, g.keys.id("u"), s.U)
}

// canonical read-back value -> cv term
func (g *c16Gen) cvTerm(v any) string {
	switch x := v.(type) {
	case nil:
		return "CNull"
	case string:
		if x == "" {
			return "CEmptyStr"
		}
		return "(CStr " + g.strTerm(x) + ")"
	case int64:
		return fmt.Sprintf("(CInt (%d))", x)
	case float64:
		return "(CFlt " + g.flTerm(x) + ")"
	case bool:
		return fmt.Sprintf("(CBool %v)", x)
	case []any:
		ts := []string{}
		for _, e := range x {
			ts = append(ts, g.cvTerm(e))
		}
		return "(CArr [" + strings.Join(ts, ";") + "])"
	case map[string]any:
		keys := []string{}
		for k := range x {
			keys = append(keys, k)
		}
		sort.Strings(keys)
		ts := []string{}
		for _, k := range keys {
			ts = append(ts, fmt.Sprintf("(%d%%N, %s)", g.keys.id(k), g.cvTerm(x[k])))
		}
		return "(CObj [" + strings.Join(ts, ";") + "])"
	}
	return fmt.Sprintf("(CStr (SLit 999999%%N)) (* unexpected %T *)", v)
}

var c16TyName = []schema.ItemType{"", "string", "integer", "boolean", "float", "array", "object"}

func tyCode(t schema.ItemType) int {
	for i, n := range c16TyName {
		if n == t {
			return i
		}
	}
	return 0
}

// does the read-back equal the stored value exactly? (direct oracle for untyped storage)
func c16Same(orig any, back any) bool {
	o := c16Norm(orig)
	return fmt.Sprintf("%#v", o) == fmt.Sprintf("%#v", c16Norm(back))
}

// normal form for comparison: ints as big decimal strings, floats by bits, maps sorted via fmt
func c16Norm(v any) any {
	switch x := v.(type) {
	case nil:
		return nil
	case int:
		return "i" + strconv.FormatInt(int64(x), 10)
	case int8:
		return "i" + strconv.FormatInt(int64(x), 10)
	case int16:
		return "i" + strconv.FormatInt(int64(x), 10)
	case int32:
		return "i" + strconv.FormatInt(int64(x), 10)
	case int64:
		return "i" + strconv.FormatInt(x, 10)
	case uint:
		return "i" + strconv.FormatUint(uint64(x), 10)
	case uint8:
		return "i" + strconv.FormatUint(uint64(x), 10)
	case uint16:
		return "i" + strconv.FormatUint(uint64(x), 10)
	case uint32:
		return "i" + strconv.FormatUint(uint64(x), 10)
	case uint64:
		return "i" + strconv.FormatUint(x, 10)
	case float32:
		return c16Norm(float64(x))
	case float64:
		if x == math.Trunc(x) && math.Abs(x) < 9e18 {
			return "i" + strconv.FormatInt(int64(x), 10)
		}
		return fmt.Sprintf("f%x", math.Float64bits(x))
	case []any:
		out := make([]any, len(x))
		for i := range x {
			out[i] = c16Norm(x[i])
		}
		return out
	case []int:
		out := make([]any, len(x))
		for i := range x {
			out[i] = c16Norm(x[i])
		}
		return out
	case map[string]any:
		out := map[string]any{}
		for k, e := range x {
			out[k] = c16Norm(e)
		}
		return out
	}
	return v
}

func runC16(env *Env) {
	rep := &Report{Property: "C16",
		Rule: "Go values generated over every integer width (boundary values), unsigned widths, floats (incl. float32, NaN), unicode strings and the special texts true/false/<number>, nil, typed nil pointers, pointers (also pointer-to-pointer), []any / []int / map[string]any / two struct types nested to depth 4, channels; stored through schema.NewValue (no declared type) and through ValueFrom under each of the 6 declared item types; read back with Value(); plus engine-level runs (WithVariables, DoWithResults, olive property $refs to present/absent paths, two instances); non-trivial = composite value or declared type present; distinct by generated term"}
	g := &c16Gen{rng: rand.New(rand.NewSource(env.Seed)), keys: &c16Dict{ids: map[string]int{}}, lits: &c16Dict{ids: map[string]int{}}, flts: &c16Dict{ids: map[string]int{}}}
	n := 700
	if env.Thorough() {
		n = 8000
	}
	seen := map[string]bool{}
	var items []string
	type fixedCase struct {
		declared int
		v        any
		term     string
	}
	corpus := []fixedCase{
		{0, []any{int64(1<<53 + 1)}, "(VSlice [(VInt (9007199254740993))])"},
		{0, uint8(200), "(VUint (200))"},
		{0, uint64(math.MaxInt64), "(VUint (9223372036854775807))"},
		{5, nil, "VNil"},
		{6, nil, "VNil"},
		{6, &c16S1{A: 1, B: "x"}, "(VPtr " + g.s1Term(c16S1{A: 1, B: "x"}) + ")"},
	}
	// numerals as texts (with leading zeros, signs) under every declared type
	for _, numeral := range []string{"010", "0089", "-007", "000", "42", "9223372036854775807"} {
		for declared := 1; declared <= 6; declared++ {
			corpus = append(corpus, fixedCase{declared, numeral, "(VStr " + g.strTerm(numeral) + ")"})
		}
	}
	for i := -len(corpus); i < n; i++ {
		declared := 0
		var v any
		var term string
		if i < 0 {
			c := corpus[i+len(corpus)]
			declared, v, term = c.declared, c.v, c.term
		} else if i%3 == 2 {
			declared = 1 + g.rng.Intn(6)
			// declared types: keep to dynamic values the model covers (see DESIGN: "%f" formatting of declared floats)
			v, term = g.value(2, true)
			if declared == 4 {
				if f, ok := v.(float64); ok && !(f == math.Trunc(f) && math.Abs(f) < 1e15) {
					v, term = 0.25, "(VFloat "+g.flTerm(0.25)+")"
				}
				if _, ok := v.(float32); ok {
					v, term = 2.0, "(VFloat "+g.flTerm(2.0)+")"
				}
			}
		} else {
			v, term = g.value(4, i%2 == 0)
		}
		key := fmt.Sprint(declared, term)
		if seen[key] {
			continue
		}
		seen[key] = true
		cs := fmt.Sprintf("declared=%q value=%#v", c16TyName[declared], v)
		env.Current(cs)
		var val *schema.Value
		panicked := ""
		func() {
			defer func() {
				if r := recover(); r != nil {
					panicked = fmt.Sprint(r)
				}
			}()
			if declared == 0 {
				val = schema.NewValue(v)
			} else {
				val = &schema.Value{ItemType: c16TyName[declared]}
				val.ValueFrom(v)
			}
			_ = val.Value()
		}()
		rep.Evaluations++
		rep.Count(fmt.Sprintf("declared_%s", c16TyName[declared]))
		if declared != 0 || strings.Contains(term, "VSlice") || strings.Contains(term, "VMap") || strings.Contains(term, "VStruct") {
			rep.Nontrivial++
		}
		if panicked != "" {
			rep.Violate("C16-panic", cs, "value layer panicked: "+panicked)
			continue
		}
		back := val.Value()
		// a reader editing the value it read must not change what is stored (no aliasing)
		before := fmt.Sprintf("%#v", c16Norm(back))
		c16Scribble(back)
		if again := fmt.Sprintf("%#v", c16Norm(val.Value())); again != before && !strings.Contains(term, "FBad") {
			rep.Violate("C16-aliasing", cs, fmt.Sprintf("after the reader edited its copy the stored value reads back %s instead of %s", again, before))
		}
		back = val.Value()
		// direct oracle: untyped storage of an encodable value must read back equal (ints as ints)
		if declared == 0 && !strings.Contains(term, "VOther") && !strings.Contains(term, "FBad") && !strings.Contains(term, "VPtr (VPtr") {
			exp := v
			// structs/pointers: compare through their JSON-generic form is what "canonical form" means;
			// here only scalars / []any / map[string]any trees are compared directly
			direct := c16Plain(v) && v != nil
			if direct && !c16Same(exp, back) {
				k := "C16-roundtrip"
				if strings.Contains(fmt.Sprintf("%#v", c16Norm(back)), "i") && c16BigNested(v, 0) {
					k = "C16-nested-int-precision"
				}
				rep.Violate(k, cs, fmt.Sprintf("read back %#v", back))
			}
		}
		items = append(items, fmt.Sprintf("(%d%%nat, %s, %d%%nat, %s)", declared, term, tyCode(val.Type()), g.cvTerm(back)))
		if (strings.Contains(term, "VMap") || strings.Contains(term, "VStruct")) && len(term) < 300 {
			rep.Sample(fmt.Sprintf("%s -> type=%q value=%q", cs, val.ItemType, val.ItemValue))
		}
	}
	c16Engine(env, rep)
	c16AcrossSubProcess(env, rep)
	env.WriteCases(rep, "", "Corr.C16corr", "nat * gv * nat * cv", items, "c16_mismatches", "Open Scope Z_scope.")
	env.WriteReport(rep)
}

// mutate a read-back value in place, as a careless reader would
func c16Scribble(v any) {
	switch x := v.(type) {
	case []any:
		for i := range x {
			c16Scribble(x[i])
			x[i] = "scribbled"
		}
	case map[string]any:
		for k := range x {
			c16Scribble(x[k])
			x[k] = "scribbled"
		}
		x["__scribble"] = 1
	}
}

// only scalars, []any, []int, map[string]any all the way down (no structs, pointers, channels, nils)
func c16Plain(v any) bool {
	switch x := v.(type) {
	case nil:
		return true
	case []any:
		for _, e := range x {
			if !c16Plain(e) {
				return false
			}
		}
		return true
	case []int:
		return true
	case map[string]any:
		for _, e := range x {
			if !c16Plain(e) {
				return false
			}
		}
		return true
	case int, int8, int16, int32, int64, uint, uint8, uint16, uint32, uint64, float64, string, bool:
		return true
	case float32:
		return true
	}
	return false
}

// is there an integer beyond 2^53 below the top level?
func c16BigNested(v any, depth int) bool {
	switch x := v.(type) {
	case []any:
		for _, e := range x {
			if c16BigNested(e, depth+1) {
				return true
			}
		}
	case map[string]any:
		for _, e := range x {
			if c16BigNested(e, depth+1) {
				return true
			}
		}
	default:
		if depth == 0 {
			return false
		}
		s, ok := c16Norm(v).(string)
		if ok && strings.HasPrefix(s, "i") {
			z, err := strconv.ParseInt(s[1:], 10, 64)
			return err != nil || z > 1<<53 || z < -(1<<53)
		}
	}
	return false
}

// engine-level: values through a running process
func c16Engine(env *Env, rep *Report) {
	p := &Prog{}
	p.Node("start", "start")
	t := p.Node("task", "T")
	t.Inner = `<bpmn:extensionElements><olive:properties>` +
		`<olive:property name="ps" value="" type="string" ref="$cfg.missing"/>` +
		`<olive:property name="pi" value="" type="integer" ref="$cfg.missing"/>` +
		`<olive:property name="pb" value="" type="boolean" ref="$cfg.missing"/>` +
		`<olive:property name="pf" value="" type="float" ref="$cfg.missing"/>` +
		`<olive:property name="pa" value="" type="array" ref="$cfg.missing"/>` +
		`<olive:property name="po" value="" type="object" ref="$cfg.missing"/>` +
		`<olive:property name="pn" value="" type="object" ref="$nosuch.x"/>` +
		`<olive:property name="pk" value="" type="integer" ref="$cfg.n"/>` +
		`<olive:property name="pl" value="" type="array" ref="$cfg.l"/>` +
		`<olive:property name="pv" value="" type="integer"/>` +
		`</olive:properties><olive:taskHeaders><olive:header name="h" value="d" type="string" ref="$cfg.missing"/><olive:header name="h2" value="d" type="string" ref="$cfg.s"/></olive:taskHeaders>` +
		`<olive:results><olive:field name="r1" type="integer"/><olive:field name="r2" type="object"/><olive:field name="r3" type="array"/><olive:field name="r4" type="string"/></olive:results></bpmn:extensionElements>`
	p.Node("end", "end")
	p.Flow("start", "T", "")
	p.Flow("T", "end", "")
	xmlText := p.XML("")
	type rcase struct {
		name    string
		results map[string]any
	}
	cases := []rcase{
		{"uints", map[string]any{"r1": uint8(200), "r2": map[string]any{"u": uint64(7)}, "r3": []any{uint16(1), uint32(2)}, "r4": "s", "undeclared": 1}},
		{"nils", map[string]any{"r1": nil, "r2": nil, "r3": nil, "r4": nil}},
		{"ptrs", map[string]any{"r1": func() *int { x := 5; return &x }(), "r2": &c16S1{1, "b"}, "r3": []int{}, "r4": (*string)(nil)}},
		{"plain", map[string]any{"r1": int64(math.MaxInt64), "r2": map[string]any{"a": 1.5}, "r3": []any{"x", true, nil}, "r4": "日本"}},
	}
	for _, c := range cases {
		cs := "engine task results " + c.name
		env.Current(cs)
		defs, err := ParseDefs(xmlText)
		must(err)
		in, err := StartInst(defs, InstOpt{Vars: map[string]any{"cfg": map[string]any{"n": 5, "l": []any{1, 2}, "s": "hdr"}, "pv": uint(9)}})
		must(err)
		tt := in.WaitTask("T", tmoStep)
		if tt == nil {
			rep.Violate("C16-engine", cs, "task not requested: "+logString(in.Log()))
			in.Close()
			continue
		}
		props := tt.GetProperties()
		// (a declared-integer property whose $ref yields a JSON number stays empty: gjson returns
		//  float64, which the integer branch ignores; not a panic, outside this property)
		if v, ok := props["pv"]; !ok || fmt.Sprint(v.Value()) != "9" {
			rep.Violate("C16-engine", cs, fmt.Sprintf("property pv (variable uint 9) = %v", props["pv"]))
		}
		if h := tt.GetHeaders(); h["h"] != "d" || h["h2"] != "hdr" {
			rep.Violate("C16-engine", cs, fmt.Sprintf("headers %v", h))
		}
		in.Mark("answer", "T", "")
		tt.Do(bpmn.DoWithResults(c.results))
		if !in.WaitCease(tmoStep) {
			rep.Violate("C16-engine", cs, "instance did not complete: "+logString(in.Log()))
		}
		vars := in.P.Locator().CloneVariables()
		if _, ok := vars["undeclared"]; ok {
			rep.Violate("C16-engine", cs, "undeclared result name was stored")
		}
		for name, rv := range c.results {
			if name == "undeclared" {
				continue
			}
			got, ok := vars[name]
			if !ok {
				rep.Violate("C16-engine", cs, "declared result "+name+" not stored")
				continue
			}
			want := schema.NewValue(rv)
			if fmt.Sprintf("%#v", got.Value()) != fmt.Sprintf("%#v", want.Value()) {
				rep.Violate("C16-engine", cs, fmt.Sprintf("result %s: stored %#v, NewValue gives %#v", name, got.Value(), want.Value()))
			}
		}
		// a reader editing what GetVariable returned must not change the stored variable
		if v1, ok := in.P.Locator().GetVariable("r2"); ok {
			b1 := fmt.Sprintf("%#v", v1)
			c16Scribble(v1)
			v2, _ := in.P.Locator().GetVariable("r2")
			if b2 := fmt.Sprintf("%#v", v2); b1 != b2 {
				rep.Violate("C16-aliasing", cs, fmt.Sprintf("variable r2 changed after a reader edited its copy: %s -> %s", b1, b2))
			}
		}
		// isolation: a second instance does not see the first one's variables
		defs2, _ := ParseDefs(xmlText)
		in2, err := StartInst(defs2, InstOpt{})
		must(err)
		if _, ok := in2.P.Locator().GetVariable("r4"); ok {
			rep.Violate("C16-isolation", cs, "variable r4 of another instance is visible")
		}
		if _, ok := in2.P.Locator().GetVariable("cfg"); ok {
			rep.Violate("C16-isolation", cs, "variable cfg of another instance is visible")
		}
		in2.Close()
		in.Close()
		rep.Evaluations++
		rep.Nontrivial++
		rep.Count("engine_results")
	}
	// isolation when one option value (one WithVariables) is applied to several instances
	{
		cs := "two instances created with the same WithVariables option value; the first one writes"
		env.Current(cs)
		p := &Prog{}
		p.Node("start", "start")
		t := p.Node("task", "T")
		t.Results = []string{"foo"}
		p.Node("end", "end")
		p.Flow("start", "T", "")
		p.Flow("T", "end", "")
		callers := schema.NewValue("orig-y")
		shared := []bpmn.Option{bpmn.WithVariables(map[string]any{"x": "orig", "n": 1, "y": callers})}
		defsA, _ := ParseDefs(p.XML(""))
		defsB, _ := ParseDefs(p.XML(""))
		inA, err := StartInst(defsA, InstOpt{Opts: shared})
		must(err)
		inB, err := StartInst(defsB, InstOpt{Opts: shared, NoStart: true})
		must(err)
		// ... also a snapshot of NO variables: it stays empty
		{
			empty := data.NewFlowDataLocator()
			none := empty.CloneVariables()
			empty.SetVariable("later", 1)
			if len(none) != 0 {
				rep.Violate("C16-aliasing", cs, fmt.Sprintf("a snapshot taken while there were no variables shows %d after one was stored", len(none)))
			}
		}
		// a snapshot keeps the values it was taken with, whatever is stored afterwards (same type or not)
		snapshot := inA.P.Locator().CloneVariables()
		inA.P.Locator().SetVariable("x", "changed-in-a")
		inA.P.Locator().SetVariable("y", "changed-in-a")
		inA.P.Locator().SetVariable("n", 2)
		for name, want := range map[string]string{"x": "orig", "y": "orig-y", "n": "1"} {
			if it, ok := snapshot[name]; !ok || fmt.Sprint(it.Value()) != want {
				rep.Violate("C16-aliasing", cs, fmt.Sprintf("a snapshot of the variables taken before %s was written again now reads %v, expected %s", name, it, want))
			}
			if v, _ := inA.P.Locator().GetVariable(name); fmt.Sprint(v) == want {
				rep.Violate("C16-engine", cs, fmt.Sprintf("variable %s written again still reads %v", name, v))
			}
		}
		if got := fmt.Sprint(callers.Value()); got != "orig-y" {
			rep.Violate("C16-isolation", cs, "the caller's own value was rewritten by an instance: "+got)
		}
		if v, _ := inB.P.Locator().GetVariable("y"); fmt.Sprint(v) != "orig-y" {
			rep.Violate("C16-isolation", cs, fmt.Sprintf("the second instance reads y = %v, expected \"orig-y\"", v))
		}
		if v, _ := inB.P.Locator().GetVariable("n"); fmt.Sprint(v) != "1" {
			rep.Violate("C16-isolation", cs, fmt.Sprintf("the second instance reads n = %v, expected 1", v))
		}
		// a locator filled from another one is a copy
		{
			parent := data.NewFlowDataLocator()
			parent.SetVariable("name", "parent")
			parent.SetVariable("k", uint8(200))
			child := data.NewFlowDataLocator()
			child.Merge(parent)
			child.SetVariable("name", "child")
			child.SetVariable("k", int64(-1))
			pn, _ := parent.GetVariable("name")
			pk, _ := parent.GetVariable("k")
			cn, _ := child.GetVariable("name")
			ck, _ := child.GetVariable("k")
			if fmt.Sprintf("%v %v %v %v", pn, pk, cn, ck) != "parent 200 child -1" {
				rep.Violate("C16-aliasing", cs, fmt.Sprintf("a locator merged from another one and written: source reads %v %v, copy reads %v %v", pn, pk, cn, ck))
			}
		}
		if tt := inA.WaitTask("T", tmoStep); tt != nil {
			tt.Do(bpmn.DoWithResults(map[string]any{"foo": 7}))
			inA.WaitCease(tmoStep)
		}
		if v, _ := inB.P.Locator().GetVariable("x"); fmt.Sprint(v) != "orig" {
			rep.Violate("C16-isolation", cs, fmt.Sprintf("the second instance reads x = %v, expected \"orig\"", v))
		}
		if _, ok := inB.P.Locator().GetVariable("foo"); ok {
			rep.Violate("C16-isolation", cs, "the first instance's task result foo is visible in the second instance")
		}
		if n := len(inB.P.Locator().CloneVariables()); n != 3 {
			rep.Violate("C16-isolation", cs, fmt.Sprintf("the second instance has %d variables, expected 3", n))
		}
		inA.Close()
		inB.Close()
		rep.Evaluations++
		rep.Nontrivial++
		rep.Count("engine_isolation_shared_option")
	}
	// instances made at the same moment by several goroutines from ONE option slice (with room to spare in its backing
	// array) through one engine: each has its own variables
	{
		cs := "8 goroutines create instances at the same moment through one engine from one option slice with spare capacity; each writes and reads its own variable"
		env.Current(cs)
		q := &Prog{}
		q.Node("start", "start")
		q.Node("task", "T")
		q.Node("end", "end")
		q.Flow("start", "T", "")
		q.Flow("T", "end", "")
		xmlText := q.XML("")
		rounds := 60
		if env.Thorough() {
			rounds = 600
		}
		sharedLoc, leaked := 0, 0
		for r := 0; r < rounds; r++ {
			opts := make([]bpmn.Option, 1, 8)
			opts[0] = bpmn.WithVariables(map[string]any{"who": -1})
			eng := bpmn.NewEngine()
			procs := make([]*bpmn.Process, 8)
			docs := make([]*schema.Definitions, 8)
			for g := range docs {
				docs[g], _ = ParseDefs(xmlText)
			}
			var wg sync.WaitGroup
			start := make(chan struct{})
			for g := 0; g < 8; g++ {
				wg.Add(1)
				go func(g int) {
					defer wg.Done()
					<-start
					var err error
					procs[g], err = eng.NewProcess(docs[g], opts...)
					must(err)
					procs[g].Locator().SetVariable("who", g)
				}(g)
			}
			close(start)
			wg.Wait()
			seen := map[any]bool{}
			for g, pr := range procs {
				if seen[pr.Locator()] {
					sharedLoc++
				}
				seen[pr.Locator()] = true
				if v, _ := pr.Locator().GetVariable("who"); fmt.Sprint(v) != fmt.Sprint(g) {
					leaked++
				}
			}
		}
		rep.Evaluations++
		rep.Nontrivial++
		rep.Count("engine_isolation_concurrent_creation")
		if sharedLoc > 0 || leaked > 0 {
			rep.Violate("C16-isolation", cs, fmt.Sprintf("in %d rounds: %d instances run on the locator of another one, %d read back a value another instance wrote", rounds, sharedLoc, leaked))
		}
	}
	// variables given in several WithVariables options (defaults of a deployment, values of a request): all of them
	// are stored, a name given twice has the value of the later option -- in either order of the options
	for _, order := range [][2]int{{0, 1}, {1, 0}} {
		cs := fmt.Sprintf("two WithVariables options on one instance, in the order %v (0 = {region, limit, shared: from-defaults}, 1 = {customer, shared: from-request})", order)
		env.Current(cs)
		q := &Prog{}
		q.Node("start", "start")
		q.Node("task", "T")
		q.Node("end", "end")
		q.Flow("start", "T", "")
		q.Flow("T", "end", "")
		sets := []map[string]any{
			{"region": "eu", "limit": 10, "shared": "from-defaults"},
			{"customer": "c-17", "shared": "from-request"},
		}
		defs, err := ParseDefs(q.XML(""))
		must(err)
		in, err := StartInst(defs, InstOpt{Opts: []bpmn.Option{bpmn.WithVariables(sets[order[0]]), bpmn.WithVariables(sets[order[1]])}})
		must(err)
		rep.Evaluations++
		rep.Nontrivial++
		rep.Count("engine_several_variable_options")
		want := map[string]string{"region": "eu", "limit": "10", "customer": "c-17", "shared": fmt.Sprint(sets[order[1]]["shared"])}
		vars := in.P.Locator().CloneVariables()
		for name, w := range want {
			if it, ok := vars[name]; !ok || fmt.Sprint(it.Value()) != w {
				rep.Violate("C16-engine", cs, fmt.Sprintf("variable %s reads %v, expected %s (all variables: %d)", name, it, w, len(vars)))
			}
		}
		in.Close()
	}
	propertyPerRequest(env, rep, "C16-engine", "C16-isolation")
	manyWritersAtOnce(env, rep, "C16-engine", 6)
	c16ExprPools(env, rep)
	// values stored and read on a boundary event's exception flow (the token that waits at the boundary event is made
	// by the activity's harness): a task result stored there, a condition reading it, a data object
	for _, intr := range []bool{true, false} {
		cs := fmt.Sprintf("task results and a condition on the exception flow of a boundary event (interrupting=%v)", intr)
		env.Current(cs)
		q := &Prog{}
		q.Node("start", "start")
		q.Node("task", "H")
		q.Node("end", "end")
		q.Flow("start", "H", "")
		q.Flow("H", "end", "")
		b := q.Node("boundary", "B0")
		b.Attrs = fmt.Sprintf(`attachedToRef="H" cancelActivity="%v"`, intr)
		b.Inner = `<bpmn:signalEventDefinition id="bd0" signalRef="s0"/>`
		x := q.Node("task", "X")
		x.Results = []string{"r", "o"}
		q.Flow("B0", "X", "")
		g := q.Node("xor", "G")
		q.Flow("X", "G", "")
		q.Node("task", "Y")
		q.Node("task", "Z")
		q.Flow("G", "Y", "r == 5")
		g.Default = q.Flow("G", "Z", "").ID
		q.Node("end", "eY")
		q.Node("end", "eZ")
		q.Flow("Y", "eY", "")
		q.Flow("Z", "eZ", "")
		defs, err := ParseDefs(q.XML(`<bpmn:signal id="s0" name="s0"/>`))
		must(err)
		in, err := StartInst(defs, InstOpt{Vars: map[string]any{"r": 0}})
		must(err)
		rep.Evaluations++
		rep.Nontrivial++
		rep.Count("engine_exception_flow")
		if !in.WaitUntil(tmoStep, func(l []Ev) bool { return countEv(l, "task", "H") >= 1 && countEv(l, "listening", "B0") >= 1 }) {
			rep.Violate("C16-engine", cs, "H not requested with its boundary event listening: "+logString(in.Log()))
			in.Close()
			continue
		}
		in.Signal("s0")
		obj := map[string]any{"k": "v", "n": []any{int64(1), "two"}}
		if !in.Answer("X", tmoStep, bpmn.DoWithResults(map[string]any{"r": 5, "o": obj})) {
			rep.Violate("C16-engine", cs, "the task on the exception flow was not requested: "+logString(in.Log()))
			in.Close()
			continue
		}
		if !in.WaitUntil(tmoStep, func(l []Ev) bool { return countEv(l, "task", "Y")+countEv(l, "task", "Z") >= 1 }) {
			rep.Violate("C16-engine", cs, "after the result r = 5 was stored, the gateway behind routed the token nowhere: "+logString(in.Log()))
		} else if countEv(in.Log(), "task", "Y") != 1 {
			rep.Violate("C16-engine", cs, "the condition r == 5 on the exception flow did not see the stored result: "+logString(in.Log()))
		}
		if v, ok := in.P.Locator().GetVariable("r"); !ok || !c16Same(int64(5), v) {
			rep.Violate("C16-engine", cs, fmt.Sprintf("result r stored on the exception flow reads back %#v (present %v)", v, ok))
		}
		if v, ok := in.P.Locator().GetVariable("o"); !ok || !c16Same(obj, v) {
			rep.Violate("C16-engine", cs, fmt.Sprintf("result o stored on the exception flow reads back %#v (present %v)", v, ok))
		}
		in.Close()
	}
	// every task result is stored, also when two tokens wait in one task and are answered at the same time with
	// different results: each answer's values must be readable afterwards, unchanged
	for round := 0; round < 12 && !rep.Saturated(); round++ {
		cs := fmt.Sprintf("two tokens in one task answered together with different results (round %d)", round)
		env.Current(cs)
		p := &Prog{}
		p.Node("start", "start")
		p.Node("par", "F")
		p.Flow("start", "F", "")
		p.Node("xor", "M")
		p.Flow("F", "M", "")
		p.Flow("F", "M", "")
		t := p.Node("task", "T")
		t.Results = []string{"ra", "rb"}
		p.Flow("M", "T", "")
		p.Node("end", "end")
		p.Flow("T", "end", "")
		defs, err := ParseDefs(p.XML(""))
		must(err)
		in, err := StartInst(defs, InstOpt{})
		must(err)
		rep.Evaluations++
		rep.Nontrivial++
		rep.Count("engine_two_answers_one_task")
		if !in.WaitUntil(tmoStep, func(l []Ev) bool { return countEv(l, "task", "T") >= 2 }) {
			rep.Violate("C16-engine", cs, "the task was not requested twice: "+logString(in.Log()))
			in.Close()
			continue
		}
		t1, t2 := in.WaitTask("T", tmoStep), in.WaitTask("T", tmoStep)
		if t1 == nil || t2 == nil {
			rep.Violate("C16-engine", cs, "two requests were announced, fewer can be answered: "+logString(in.Log()))
			in.Close()
			continue
		}
		va, vb := int64(1000+round), fmt.Sprintf("b-%d", round)
		var wg sync.WaitGroup
		wg.Add(2)
		go func() { defer wg.Done(); t1.Do(bpmn.DoWithResults(map[string]any{"ra": va})) }()
		go func() { defer wg.Done(); t2.Do(bpmn.DoWithResults(map[string]any{"rb": vb})) }()
		wg.Wait()
		if !in.WaitCease(tmoStep) {
			rep.Violate("C16-engine", cs, "instance did not complete: "+logString(in.Log()))
		} else {
			ga, oka := in.P.Locator().GetVariable("ra")
			gb, okb := in.P.Locator().GetVariable("rb")
			if !oka || !okb || !c16Same(va, ga) || !c16Same(vb, gb) {
				rep.Violate("C16-engine", cs, fmt.Sprintf("task results read back: ra = %#v (present %v, stored %#v), rb = %#v (present %v, stored %#v)", ga, oka, va, gb, okb, vb))
			}
		}
		in.Close()
	}
}

// values cross the boundary of an embedded sub-process in both directions: what a task outside stored is what a task
// inside is given and what a condition inside routes on; what a task inside stored is readable from the instance, is
// given to a task outside and routes a gateway behind the sub-process (one store per instance, however deep the nesting)
func c16AcrossSubProcess(env *Env, rep *Report) {
	var sitems []string
	defer func() {
		env.WriteCases(rep, "_scopes", "Corr.C16corr", "list (N * N * N * N)", sitems, "c16_scope_mismatches", "Open Scope N_scope.")
	}()
	ext := func(prop string, result string) string {
		s := `<bpmn:extensionElements>`
		if prop != "" {
			s += `<olive:properties><olive:property name="` + prop + `" value="" type="integer"/></olive:properties>`
		}
		if result != "" {
			s += `<olive:results><olive:field name="` + result + `" type="integer"/></olive:results>`
		}
		return s + `</bpmn:extensionElements>`
	}
	for depth := 1; depth <= 3 && !rep.Saturated(); depth++ {
		for round := 0; round < 2; round++ {
			cs := fmt.Sprintf("A stores ra outside, B inside %d level(s) of sub-process reads ra and stores rb, a gateway inside routes on ra, C and a gateway outside read rb (round %d)", depth, round)
			env.Current(cs)
			va, vb := int64(40+depth*10+round), int64(70+depth*10+round)
			inner := &Prog{}
			inner.Node("start", "is")
			inner.Node("task", "B").Inner = ext("ra", "rb")
			inner.Flow("is", "B", "")
			g := inner.Node("xor", "IG")
			inner.Flow("B", "IG", "")
			inner.Node("task", "IY")
			inner.Node("task", "IZ")
			inner.Flow("IG", "IY", fmt.Sprintf("ra == %d", va))
			g.Default = inner.Flow("IG", "IZ", "").ID
			inner.Node("end", "ieY")
			inner.Node("end", "ieZ")
			inner.Flow("IY", "ieY", "")
			inner.Flow("IZ", "ieZ", "")
			body := inner
			for l := 1; l < depth; l++ {
				w := &Prog{}
				w.Node("start", fmt.Sprintf("ws%d", l))
				w.Node("sub", fmt.Sprintf("W%d", l)).Sub = body
				w.Node("end", fmt.Sprintf("we%d", l))
				w.Flow(fmt.Sprintf("ws%d", l), fmt.Sprintf("W%d", l), "")
				w.Flow(fmt.Sprintf("W%d", l), fmt.Sprintf("we%d", l), "")
				body = w
			}
			p := &Prog{}
			p.Node("start", "start")
			p.Node("task", "A").Inner = ext("", "ra")
			p.Flow("start", "A", "")
			p.Node("sub", "S").Sub = body
			p.Flow("A", "S", "")
			p.Node("task", "C").Inner = ext("rb", "")
			p.Flow("S", "C", "")
			og := p.Node("xor", "OG")
			p.Flow("C", "OG", "")
			p.Node("task", "OY")
			p.Node("task", "OZ")
			p.Flow("OG", "OY", fmt.Sprintf("rb == %d", vb))
			og.Default = p.Flow("OG", "OZ", "").ID
			p.Node("end", "oeY")
			p.Node("end", "oeZ")
			p.Flow("OY", "oeY", "")
			p.Flow("OZ", "oeZ", "")
			defs, err := ParseDefs(p.XML(""))
			must(err)
			in, err := StartInst(defs, InstOpt{Vars: map[string]any{"ra": 0, "rb": 0}})
			must(err)
			rep.Evaluations++
			rep.Nontrivial++
			rep.Count("engine_across_subprocess")
			fail := func(msg string) {
				rep.Violate("C16-engine", cs, msg+": "+logString(in.Log()))
				in.Close()
			}
			if !in.Answer("A", tmoStep, bpmn.DoWithResults(map[string]any{"ra": va})) {
				fail("A not requested")
				continue
			}
			tb := in.WaitTask("B", tmoStep)
			if tb == nil {
				fail("B (inside the sub-process) not requested")
				continue
			}
			// names: ra = 1, rb = 2; an unreadable value is written as 999
			obs := func(v any, ok bool) int64 {
				if !ok {
					return 999
				}
				switch x := v.(type) {
				case int64:
					return x
				case int:
					return int64(x)
				case float64:
					return int64(x)
				}
				return 999
			}
			ops := []string{"(0,0,1,0)", "(0,0,2,0)", fmt.Sprintf("(0,0,1,%d)", va)}
			if v, ok := tb.GetProperties()["ra"]; ok {
				ops = append(ops, fmt.Sprintf("(1,%d,1,%d)", depth, obs(v.Value(), true)))
			} else {
				ops = append(ops, fmt.Sprintf("(1,%d,1,999)", depth))
			}
			if v, ok := tb.GetProperties()["ra"]; !ok || !c16Same(va, v.Value()) {
				rep.Violate("C16-engine", cs, fmt.Sprintf("the task inside the sub-process is given ra = %v (present %v); A stored %d before the token entered", v, ok, va))
			}
			tb.Do(bpmn.DoWithResults(map[string]any{"rb": vb}))
			if !in.WaitUntil(tmoStep, func(l []Ev) bool { return countEv(l, "task", "IY")+countEv(l, "task", "IZ") >= 1 }) {
				fail("the gateway inside the sub-process routed the token nowhere")
				continue
			}
			if countEv(in.Log(), "task", "IY") != 1 {
				rep.Violate("C16-engine", cs, fmt.Sprintf("the condition ra == %d inside the sub-process did not see what A stored: %s", va, logString(in.Log())))
			}
			ops = append(ops, fmt.Sprintf("(0,%d,2,%d)", depth, vb))
			{
				v, ok := in.P.Locator().GetVariable("rb")
				ops = append(ops, fmt.Sprintf("(1,0,2,%d)", obs(v, ok)))
				sitems = append(sitems, "["+strings.Join(ops, ";")+"]")
			}
			if v, ok := in.P.Locator().GetVariable("rb"); !ok || !c16Same(vb, v) {
				rep.Violate("C16-engine", cs, fmt.Sprintf("rb stored inside the sub-process reads back from the instance as %#v (present %v), stored %d", v, ok, vb))
			}
			if !in.Answer("IY", tmoStep) && !in.Answer("IZ", tmoStep) {
				fail("neither task behind the inner gateway can be answered")
				continue
			}
			tc := in.WaitTask("C", tmoStep)
			if tc == nil {
				fail("C (behind the sub-process) not requested")
				continue
			}
			if v, ok := tc.GetProperties()["rb"]; !ok || !c16Same(vb, v.Value()) {
				rep.Violate("C16-engine", cs, fmt.Sprintf("the task behind the sub-process is given rb = %v (present %v); B stored %d inside", v, ok, vb))
			}
			tc.Do()
			if !in.WaitUntil(tmoStep, func(l []Ev) bool { return countEv(l, "task", "OY")+countEv(l, "task", "OZ") >= 1 }) {
				fail("the gateway behind the sub-process routed the token nowhere")
				continue
			}
			if countEv(in.Log(), "task", "OY") != 1 {
				rep.Violate("C16-engine", cs, fmt.Sprintf("the condition rb == %d behind the sub-process did not see what B stored inside: %s", vb, logString(in.Log())))
			}
			in.Close()
		}
	}
}

// propertyPerRequest (shared by C16 and C08)
func propertyPerRequest(env *Env, rep *Report, keyEngine, keyIsolation string) {
	// a task property bound to a variable is resolved for every request anew: three instances of ONE parsed document
	// with different values (the last with none), and one instance looping back to the task with a changed value
	{
		q := &Prog{}
		q.Node("start", "start")
		q.Node("xor", "M")
		qt := q.Node("task", "T")
		qt.Inner = `<bpmn:extensionElements><olive:properties>` +
			`<olive:property name="c" value="" type="string"/>` +
			`<olive:property name="k" value="" type="integer" ref="$cfg.n"/>` +
			`</olive:properties><olive:results><olive:field name="c" type="string"/><olive:field name="again" type="boolean"/></olive:results></bpmn:extensionElements>`
		qx := q.Node("xor", "X")
		q.Node("end", "end")
		q.Flow("start", "M", "")
		q.Flow("M", "T", "")
		q.Flow("T", "X", "")
		q.Flow("X", "M", "again")
		qx.Default = q.Flow("X", "end", "").ID
		defs, err := ParseDefs(q.XML(""))
		must(err)
		propStr := func(t bpmn.TaskTrace, name string) string {
			v, ok := t.GetProperties()[name]
			if !ok || v == nil || v.Value() == nil {
				return "<none>"
			}
			return fmt.Sprint(v.Value())
		}
		for i, val := range []any{"one", "two", nil} {
			cs := fmt.Sprintf("instance %d of one parsed document, variable c = %v", i+1, val)
			env.Current(cs)
			vars := map[string]any{"again": false}
			want := "<none>"
			if val != nil {
				vars["c"] = val
				want = fmt.Sprint(val)
			}
			in, err := StartInst(defs, InstOpt{Vars: vars})
			must(err)
			rep.Evaluations++
			rep.Nontrivial++
			rep.Count("engine_property_per_request")
			if tt := in.WaitTask("T", tmoStep); tt == nil {
				rep.Violate(keyEngine, cs, "task not requested: "+logString(in.Log()))
			} else {
				if got := propStr(tt, "c"); got != want && !(want == "<none>" && got == "") {
					rep.Violate(keyIsolation, cs, fmt.Sprintf("the task was handed property c = %q, the instance's variable says %q", got, want))
				}
				tt.Do()
				in.WaitCease(tmoStep)
			}
			in.Close()
		}
		cs := "one instance looping back to the task, variable c changed by the first answer"
		env.Current(cs)
		in, err := StartInst(defs, InstOpt{Vars: map[string]any{"again": false, "c": "first"}})
		must(err)
		rep.Evaluations++
		rep.Nontrivial++
		rep.Count("engine_property_per_request")
		var handed []string
		for round, next := range []string{"second", ""} {
			tt := in.WaitTask("T", tmoStep)
			if tt == nil {
				rep.Violate(keyEngine, cs, fmt.Sprintf("round %d: task not requested: %s", round, logString(in.Log())))
				break
			}
			handed = append(handed, propStr(tt, "c"))
			if next != "" {
				tt.Do(bpmn.DoWithResults(map[string]any{"c": next, "again": true}))
			} else {
				tt.Do(bpmn.DoWithResults(map[string]any{"again": false}))
			}
		}
		in.WaitCease(tmoStep)
		if len(handed) == 2 && (handed[0] != "first" || handed[1] != "second") {
			rep.Violate(keyEngine, cs, fmt.Sprintf("the task was handed property c = %v over the two rounds, expected [first second]", handed))
		}
		in.Close()
	}
}

// manyWritersAtOnce: a parallel fork into 12 tasks, each declaring a result of its own; all 12 requests are answered
// at the same moment (goroutines released together), the instance carrying many other variables: every result is
// stored — none is lost to another token's write. Shared by C16 (what is stored reads back) and C01 (the instance
// ends with the variables the answered tasks wrote).
func manyWritersAtOnce(env *Env, rep *Report, key string, rounds int) {
	const n = 12
	p := &Prog{}
	p.Node("start", "start")
	p.Node("par", "F")
	p.Node("par", "J")
	p.Node("end", "end")
	p.Flow("start", "F", "")
	for i := 0; i < n; i++ {
		t := p.Node("task", fmt.Sprintf("W%d", i))
		t.Results = []string{fmt.Sprintf("w%d", i)}
		p.Flow("F", t.ID, "")
		p.Flow(t.ID, "J", "")
	}
	p.Flow("J", "end", "")
	xmlText := p.XML("")
	for r := 0; r < rounds && !rep.Saturated(); r++ {
		cs := fmt.Sprintf("%d tasks in parallel branches answered at the same moment, each writing its own variable, 800 other variables (round %d)", n, r)
		env.Current(cs)
		defs, err := ParseDefsShared(xmlText)
		must(err)
		vars := map[string]any{}
		for i := 0; i < 800; i++ {
			vars[fmt.Sprintf("x%d", i)] = i
		}
		in, err := StartInst(defs, InstOpt{Vars: vars, Buf: 256})
		must(err)
		rep.Evaluations++
		rep.Nontrivial++
		rep.Count("many_writers_at_once")
		var tasks []bpmn.TaskTrace
		for i := 0; i < n; i++ {
			t := in.WaitTask(fmt.Sprintf("W%d", i), tmoStep)
			if t == nil {
				break
			}
			tasks = append(tasks, t)
		}
		if len(tasks) != n {
			rep.Violate(key, cs, fmt.Sprintf("only %d of %d tasks were requested; log: %s", len(tasks), n, logString(in.Log())))
			in.Close()
			continue
		}
		gate := make(chan struct{})
		var wg sync.WaitGroup
		for i, t := range tasks {
			wg.Add(1)
			go func(i int, t bpmn.TaskTrace) {
				defer wg.Done()
				<-gate
				t.Do(bpmn.DoWithResults(map[string]any{fmt.Sprintf("w%d", i): true}))
			}(i, t)
		}
		close(gate)
		wg.Wait()
		if !in.WaitCease(tmoStep) {
			rep.Violate(key, cs, "all tasks answered, the instance did not complete; log: "+logString(in.Log()))
			in.Close()
			continue
		}
		var lost []string
		for i := 0; i < n; i++ {
			if v, ok := in.P.Locator().GetVariable(fmt.Sprintf("w%d", i)); !ok || v != true {
				lost = append(lost, fmt.Sprintf("w%d", i))
			}
		}
		if len(lost) > 0 {
			rep.Violate(key, cs, fmt.Sprintf("the results %v of answered tasks are not among the instance's variables at the end", lost))
		}
		in.Close()
	}
}

// c16ExprPools: the expression functions read the pool they name — getDataObject the data objects, getProp the
// properties — whatever was read before in the same expression: the same name present in both pools (object read first
// or second), and a name present in one pool only
func c16ExprPools(env *Env, rep *Report) {
	objects := data.NewDataObjectContainer()
	put := func(c interface {
		PutItemAwareByName(string, data.IItemAware)
	}, name string, v any) {
		it := data.NewContainer(nil)
		it.Put(schema.NewValue(v))
		c.PutItemAwareByName(name, it)
	}
	put(objects, "order", map[string]any{"total": 5})
	put(objects, "list", []any{1, 2, 3})
	put(objects, "flag", true)
	props := data.NewPropertyContainer()
	put(props, "order", "vip")
	put(props, "flag", map[string]any{"k": "v"})
	cases := []struct {
		src  string
		want string
	}{
		{`[getDataObject('order'), getProp('order')][1]`, `"vip"`},
		{`[getProp('order'), getDataObject('order')][1].total`, `5`},
		{`[getDataObject('list'), getProp('list')][1]`, `<nil>`},
		{`[getProp('flag'), getDataObject('flag')][1]`, `true`},
		{`[getDataObject('order'), getDataObject('order'), getProp('order')][2]`, `"vip"`},
		{`getProp('order')`, `"vip"`},
		{`getProp('list')`, `<nil>`},
	}
	for _, c := range cases {
		cs := "expression " + c.src + " over data objects {order: {total: 5}, list: [1,2,3], flag: true} and properties {order: \"vip\", flag: {k: v}}"
		env.Current(cs)
		rep.Evaluations++
		rep.Nontrivial++
		rep.Count("expr_pools")
		got, panicked := "", ""
		func() {
			defer func() {
				if r := recover(); r != nil {
					panicked = fmt.Sprint(r)
				}
			}()
			engine := expr.New(context.Background())
			engine.SetItemAwareLocator(data.LocatorObject, objects)
			engine.SetItemAwareLocator(data.LocatorProperty, props)
			compiled, err := engine.CompileExpression(c.src)
			if err != nil {
				got = "compile error: " + err.Error()
				return
			}
			res, err := engine.EvaluateExpression(compiled, map[string]any{})
			if err != nil {
				got = "evaluation error: " + err.Error()
				return
			}
			switch x := res.(type) {
			case nil:
				got = "<nil>"
			case string:
				got = fmt.Sprintf("%q", x)
			default:
				got = fmt.Sprint(x)
			}
		}()
		if panicked != "" {
			rep.Violate("C16-panic", cs, "panic: "+panicked)
		} else if got != c.want {
			rep.Violate("C16-engine", cs, fmt.Sprintf("evaluates to %s, expected %s", got, c.want))
		}
	}
}
