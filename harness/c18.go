package main

import (
	"context"
	"fmt"
	"strings"
	"sync"
	"time"

	bpmn "github.com/olive-io/bpmn/v2"
	"github.com/olive-io/bpmn/v2/pkg/tracing"
)

func init() { commands["c18"] = runC18 }

// process i of a set: start -> [task T<i>] -> [throw H<i>] -> [catch C<i>] -> end ; node ids carry the process index
type c18Proc struct {
	task       bool // a task the driver must answer
	throws     bool // an intermediate throw event (source of a message flow)
	catches    bool // an intermediate message catch event (target of a message flow), followed by task B<i>
	msgStart   bool // waiting process: message start event
	executable bool
	parMult    bool // the catch event is parallel-multiple with two message definitions (both delivered by the wake-up)
	taskAfter  bool // a task A<i> behind the throw event
	broken     bool // the process cannot be instantiated: its task names an incoming sequence flow that does not exist
	opRef      string // the catch event's message definition names an operation: "" = no such element, "empty" = an empty element, else its text
}

func c18Build(ps []c18Proc, flows [][2]string) string {
	var progs []*Prog
	var ex []bool
	for i, c := range ps {
		p := &Prog{}
		st := p.Node("start", fmt.Sprintf("s%d", i))
		if c.msgStart {
			st.Inner = fmt.Sprintf(`<bpmn:messageEventDefinition id="msd%d"/>`, i)
		}
		prev := fmt.Sprintf("s%d", i)
		link := func(id string) { p.Flow(prev, id, ""); prev = id }
		if c.task {
			tn := p.Node("task", fmt.Sprintf("T%d", i))
			if c.broken {
				tn.Inner = `<bpmn:incoming>no_such_flow</bpmn:incoming>`
			}
			link(fmt.Sprintf("T%d", i))
		}
		if c.throws {
			h := p.Node("throw", fmt.Sprintf("H%d", i))
			h.Inner = fmt.Sprintf(`<bpmn:messageEventDefinition id="hd%d"/>`, i)
			link(fmt.Sprintf("H%d", i))
		}
		if c.taskAfter {
			p.Node("task", fmt.Sprintf("A%d", i))
			link(fmt.Sprintf("A%d", i))
		}
		if c.catches {
			cc := p.Node("catch", fmt.Sprintf("C%d", i))
			cc.Inner = fmt.Sprintf(`<bpmn:messageEventDefinition id="cd%d" messageRef="m%d"/>`, i, i)
			switch c.opRef {
			case "":
			case "empty":
				cc.Inner = fmt.Sprintf(`<bpmn:messageEventDefinition id="cd%d" messageRef="m%d"><bpmn:operationRef/></bpmn:messageEventDefinition>`, i, i)
			default:
				cc.Inner = fmt.Sprintf(`<bpmn:messageEventDefinition id="cd%d" messageRef="m%d"><bpmn:operationRef>%s</bpmn:operationRef></bpmn:messageEventDefinition>`, i, i, c.opRef)
			}
			if c.parMult {
				cc.Attrs = `parallelMultiple="true"`
				cc.Inner += fmt.Sprintf(`<bpmn:messageEventDefinition id="cdx%d" messageRef="mx%d"/>`, i, i)
			}
			link(fmt.Sprintf("C%d", i))
			p.Node("task", fmt.Sprintf("B%d", i))
			link(fmt.Sprintf("B%d", i))
		}
		p.Node("end", fmt.Sprintf("e%d", i))
		link(fmt.Sprintf("e%d", i))
		progs = append(progs, p)
		ex = append(ex, c.executable)
	}
	extra := ""
	for i := range ps {
		extra += fmt.Sprintf(`<bpmn:message id="m%d" name="m%d"/><bpmn:message id="mx%d" name="mx%d"/>`, i, i, i, i)
	}
	return SetXML(progs, ex, flows, extra)
}

type c18Obs struct {
	waits     []int // results of the scripted waits, in order
	ceaseSet  int
	ceases    int
	reqs      map[string]int
	panicked  string
	stuck     string
	log       []Ev
}

// script: "w" short wait (expected false while something is pending), "W" long wait, "c" 4 concurrent waits,
// "t:<task>" answer a task
func c18Run(xmlText string, script []string, pendingAt func(done map[string]bool) bool, nProc int) (o c18Obs) {
	o.reqs = map[string]int{}
	defer func() {
		if r := recover(); r != nil {
			o.panicked = fmt.Sprint(r)
		}
	}()
	defs, err := ParseDefs(xmlText)
	must(err)
	ctx, cancel := context.WithCancel(context.Background())
	defer cancel()
	tr := tracing.NewTracer(ctx)
	col := NewCollector(tr)
	eng := bpmn.NewEngine(bpmn.WithEngineContext(ctx))
	ps, err := eng.NewProcessSet(defs, bpmn.WithContext(ctx), bpmn.WithTracer(tr), bpmn.WithIdGenerator(sharedGen))
	if err != nil {
		o.stuck = "NewProcessSet: " + err.Error()
		return
	}
	if err := ps.StartAll(ctx); err != nil {
		o.stuck = "StartAll: " + err.Error()
		return
	}
	if strings.Contains(xmlText, "intermediateCatchEvent") {
		// (until /repo 656cb12 the set's watcher had to register a catch event before a throw could wake it)
		time.Sleep(150 * time.Millisecond)
	}
	wait := func(d time.Duration) int {
		c, cc := context.WithTimeout(context.Background(), d)
		defer cc()
		return b2i(ps.WaitUntilComplete(c))
	}
	done := map[string]bool{}
	for _, op := range script {
		switch {
		case op == "w":
			r := wait(c02Short)
			col.Mark("wait", "", fmt.Sprint(r))
			o.waits = append(o.waits, r)
		case op == "W":
			d := tmoStep
			if pendingAt(done) {
				d = c02Short
			}
			r := wait(d)
			col.Mark("wait", "", fmt.Sprint(r))
			o.waits = append(o.waits, r)
		case op == "c":
			var wg sync.WaitGroup
			res := make([]int, 4)
			for j := range res {
				wg.Add(1)
				go func(j int) {
					defer wg.Done()
					d := tmoStep
					if pendingAt(done) {
						d = c02Short
					}
					res[j] = wait(d)
					col.Mark("wait", "", fmt.Sprint(res[j]))
				}(j)
			}
			wg.Wait()
			o.waits = append(o.waits, res...)
		case strings.HasPrefix(op, "t:"):
			col.Mark("barrier", "", "")
			if !col.Answer(op[2:], tmoStep) {
				o.stuck = "task " + op[2:] + " was never requested"
				o.log = col.Log()
				return
			}
			done[op[2:]] = true
		}
	}
	// the traces travel through relays and the collector's pump: wait for the ones a completed set must
	// have produced before looking for surplus ones
	if len(o.waits) > 0 && o.waits[len(o.waits)-1] == 1 {
		col.WaitUntil(tmoStep, func(l []Ev) bool { return countEv(l, "ceaseset", "*") >= 1 && countEv(l, "cease", "*") >= nProc })
	}
	time.Sleep(settle)
	o.log = col.Log()
	for _, e := range o.log {
		switch e.K {
		case "ceaseset":
			o.ceaseSet++
		case "cease":
			o.ceases++
		case "task":
			o.reqs[e.N]++
		}
	}
	return
}

func runC18(env *Env) {
	rep := &Report{Property: "C18",
		Rule: "process sets of 1..3 executable processes (trivial start->end, or with a task) and 0..1 waiting processes instantiated by a message flow from a throw event, or a message flow waking a catch event of another executable process; scripts of waits (short while something is pending, long afterwards, repeated, 4 concurrent) and task answers; repeated to vary the schedule between process completion, watcher subscription and the run loop; non-trivial = more than one process or more than one wait; distinct by (set, script, repetition)"}
	reps := 12
	if env.Thorough() {
		reps = 150
	}
	var items []string
	type scen struct {
		name    string
		procs   []c18Proc
		flows   [][2]string
		script  []string
		tasks   []string // tasks that must be requested exactly once
		pending func(done map[string]bool) bool
		nProc   int // processes that run (executables + instantiated)
	}
	trivial := c18Proc{executable: true}
	withTask := c18Proc{executable: true, task: true}
	never := func(map[string]bool) bool { return false }
	scens := []scen{
		{"1 trivial", []c18Proc{trivial}, nil, []string{"W", "W", "c"}, nil, never, 1},
		{"2 trivial", []c18Proc{trivial, trivial}, nil, []string{"W", "c", "W"}, nil, never, 2},
		{"3 trivial", []c18Proc{trivial, trivial, trivial}, nil, []string{"c", "W"}, nil, never, 3},
		{"trivial + task", []c18Proc{trivial, withTask}, nil, []string{"w", "c", "t:T1", "W", "W"}, []string{"T1"},
			func(d map[string]bool) bool { return !d["T1"] }, 2},
		{"throw instantiates waiting process", []c18Proc{{executable: true, throws: true}, {msgStart: true, task: true}},
			[][2]string{{"H0", "s1"}}, []string{"w", "t:T1", "W", "c"}, []string{"T1"},
			func(d map[string]bool) bool { return !d["T1"] }, 2},
		{"task, throw instantiates waiting process", []c18Proc{{executable: true, task: true, throws: true}, {msgStart: true, task: true}},
			[][2]string{{"H0", "s1"}}, []string{"w", "t:T0", "w", "t:T1", "W"}, []string{"T0", "T1"},
			func(d map[string]bool) bool { return !d["T0"] || !d["T1"] }, 2},
		{"throw wakes catch event of another process", []c18Proc{{executable: true, task: true, throws: true}, {executable: true, catches: true}},
			[][2]string{{"H0", "C1"}}, []string{"w", "t:T0", "w", "t:B1", "W", "W"}, []string{"T0", "B1"},
			func(d map[string]bool) bool { return !d["T0"] || !d["B1"] }, 2},
		{"throw wakes catch event that names an operation", []c18Proc{{executable: true, task: true, throws: true}, {executable: true, catches: true, opRef: "op1"}},
			[][2]string{{"H0", "C1"}}, []string{"w", "t:T0", "w", "t:B1", "W", "W"}, []string{"T0", "B1"},
			func(d map[string]bool) bool { return !d["T0"] || !d["B1"] }, 2},
		{"throw wakes catch event with an empty operation reference", []c18Proc{{executable: true, task: true, throws: true}, {executable: true, catches: true, opRef: "empty"}},
			[][2]string{{"H0", "C1"}}, []string{"w", "t:T0", "w", "t:B1", "W", "W"}, []string{"T0", "B1"},
			func(d map[string]bool) bool { return !d["T0"] || !d["B1"] }, 2},
		{"two throws at one catch event", []c18Proc{{executable: true, task: true, throws: true}, {executable: true, task: true, throws: true}, {executable: true, catches: true}},
			[][2]string{{"H0", "C2"}, {"H1", "C2"}}, []string{"w", "t:T0", "w", "t:T1", "w", "t:B2", "W", "W"}, []string{"T0", "T1", "B2"},
			func(d map[string]bool) bool { return !d["T0"] || !d["T1"] || !d["B2"] }, 3},
		// the waiting process a throw points at cannot be instantiated (invalid model): the set goes on, and is complete
		// when the thrower is — not before
		{"throw at a waiting process that cannot be instantiated", []c18Proc{{executable: true, throws: true, taskAfter: true}, {msgStart: true, task: true, broken: true}},
			[][2]string{{"H0", "s1"}}, []string{"w", "t:A0", "W", "W"}, []string{"A0"},
			func(d map[string]bool) bool { return !d["A0"] }, 1},
		// the woken catch event is parallel-multiple with two definitions: the wake-up delivers an event for each
		{"throw wakes a parallel-multiple catch event", []c18Proc{{executable: true, task: true, throws: true}, {executable: true, catches: true, parMult: true}},
			[][2]string{{"H0", "C1"}}, []string{"w", "t:T0", "w", "t:B1", "W", "W"}, []string{"T0", "B1"},
			func(d map[string]bool) bool { return !d["T0"] || !d["B1"] }, 2},
		// two waiting processes instantiated by two throws, both alive at the same time: the set is complete only after both
		{"two throws instantiate two waiting processes", []c18Proc{{executable: true, throws: true}, {executable: true, throws: true}, {msgStart: true, task: true}, {msgStart: true, task: true}},
			[][2]string{{"H0", "s2"}, {"H1", "s3"}}, []string{"w", "t:T2", "w", "t:T3", "W", "W"}, []string{"T2", "T3"},
			func(d map[string]bool) bool { return !d["T2"] || !d["T3"] }, 4},
		// a throw event that no message flow leaves from: forwarded to the run loop all the same, acted on by nobody
		{"throw linked to nothing", []c18Proc{{executable: true, task: true, throws: true}}, nil,
			[]string{"w", "t:T0", "W", "W", "c"}, []string{"T0"},
			func(d map[string]bool) bool { return !d["T0"] }, 1},
		{"one throw linked to nothing, one instantiating a waiting process", []c18Proc{{executable: true, task: true, throws: true}, {executable: true, throws: true}, {msgStart: true, task: true}},
			[][2]string{{"H1", "s2"}}, []string{"w", "t:T2", "w", "t:T0", "W", "W"}, []string{"T2", "T0"},
			func(d map[string]bool) bool { return !d["T0"] || !d["T2"] }, 3},
	}
	for _, sc := range scens {
		xmlText := c18Build(sc.procs, sc.flows)
		for r := 0; r < reps; r++ {
			if rep.Saturated() {
				break
			}
			cs := fmt.Sprintf("set [%s], script %v (repetition %d)", sc.name, sc.script, r)
			env.Current(cs)
			o := c18Run(xmlText, sc.script, sc.pending, sc.nProc)
			rep.Evaluations++
			rep.Count(sc.name)
			if sc.nProc > 1 || len(o.waits) > 1 {
				rep.Nontrivial++
			}
			if o.panicked != "" {
				rep.Violate("C18-panic", cs, "panic: "+o.panicked)
				continue
			}
			if o.stuck != "" {
				rep.Violate("C18-stuck", cs, o.stuck+"; log: "+logString(o.log))
				continue
			}
			// expected wait results: replay the script
			done := map[string]bool{}
			wi := 0
			bad := ""
			for _, op := range sc.script {
				n := 0
				switch {
				case op == "w" || op == "W":
					n = 1
				case op == "c":
					n = 4
				case strings.HasPrefix(op, "t:"):
					done[op[2:]] = true
				}
				for j := 0; j < n && wi < len(o.waits); j, wi = j+1, wi+1 {
					exp := b2i(!sc.pending(done))
					if o.waits[wi] != exp {
						if exp == 0 {
							bad = fmt.Sprintf("wait #%d returned true while a started process still had a pending task", wi)
						} else {
							bad = fmt.Sprintf("wait #%d returned false although every started process had completed", wi)
						}
					}
				}
			}
			if bad != "" {
				rep.Violate("C18-wait", cs, bad+fmt.Sprintf(" (waits %v); log: %s", o.waits, logString(o.log)))
			}
			for _, t := range sc.tasks {
				if o.reqs[t] != 1 {
					rep.Violate("C18-message-flow", cs, fmt.Sprintf("task %s requested %d times, expected exactly once; log: %s", t, o.reqs[t], logString(o.log)))
				}
			}
			if o.ceaseSet != 1 {
				rep.Violate("C18-cease-set", cs, fmt.Sprintf("%d cease-process-set traces, expected 1", o.ceaseSet))
			}
			if o.ceases != sc.nProc {
				rep.Violate("C18-cease-set", cs, fmt.Sprintf("%d process cease-flow traces, expected %d", o.ceases, sc.nProc))
			}
			items = append(items, c18Case(sc.procs, sc.flows, o.log))
			if r == 0 {
				rep.Sample(fmt.Sprintf("%s -> waits %v, cease-set traces %d, process ceases %d, requests %v", cs, o.waits, o.ceaseSet, o.ceases, o.reqs))
			}
		}
	}
	c18OwnVariables(env, rep)
	c18LoopedCatch(env, rep, 0, 4, true)
	c18LoopedCatch(env, rep, 20000, map[bool]int{false: 12, true: 120}[env.Thorough()], true)
	c18LoopedCatch(env, rep, 0, map[bool]int{false: 40, true: 400}[env.Thorough()], false)
	env.WriteCases(rep, "", "Corr.C18corr", "list nat * list (nat * nat)", items, "c18_mismatches")
	env.WriteReport(rep)
}

// c18Case projects the trace log of a run onto the observations replayed by Corr/C18corr.v.
// Model index of a process: executables in document order, then instantiated ones in order of instantiation.
func c18Case(ps []c18Proc, flows [][2]string, log []Ev) string {
	idx := map[int]int{}
	var throwers []int
	nExec := 0
	for i, p := range ps {
		if p.executable {
			idx[i] = nExec
			nExec++
			throwers = append(throwers, b2i(p.throws))
		}
	}
	next := nExec
	for i, p := range ps { // my scenarios instantiate waiting processes in document order
		if !p.executable {
			idx[i] = next
			next++
		}
	}
	instantiating := map[string]bool{}
	for _, f := range flows {
		var t int
		if _, err := fmt.Sscanf(f[1], "s%d", &t); err == nil && strings.HasPrefix(f[1], "s") && !(t < len(ps) && ps[t].broken) {
			instantiating[f[0]] = true // (a target that cannot be instantiated: the throw is acted on by nobody)
		}
	}
	type ob struct{ k, i int }
	var obs []ob
	insts := 0
	var heldInst int // instantiations seen before the throw trace that caused them reached the log
	for _, e := range log {
		switch e.K {
		case "wait":
			if e.X == "1" {
				obs = append(obs, ob{1, 0})
			} else {
				obs = append(obs, ob{0, 0})
			}
		case "barrier":
			obs = append(obs, ob{7, 0})
		case "flow":
			if strings.HasPrefix(e.N, "H") {
				var i int
				fmt.Sscanf(e.N, "H%d", &i)
				if instantiating[e.N] {
					obs = append(obs, ob{2, idx[i]})
					if heldInst > 0 {
						heldInst--
						obs = append(obs, ob{4, 0})
					}
				} else {
					obs = append(obs, ob{6, idx[i]})
				}
			}
		case "cease":
			var i int
			fmt.Sscanf(e.N, "proc%d", &i)
			obs = append(obs, ob{3, idx[i]})
		case "inst":
			insts++
			if insts > nExec {
				// the instantiation is caused by a throw trace; the relays of two processes may deliver the two to the log in either order
				pendingThrows := 0
				for _, x := range obs {
					if x.k == 2 {
						pendingThrows++
					} else if x.k == 4 {
						pendingThrows--
					}
				}
				if pendingThrows > 0 {
					obs = append(obs, ob{4, 0})
				} else {
					heldInst++
				}
			}
		case "ceaseset":
			obs = append(obs, ob{5, 0})
		}
	}
	for ; heldInst > 0; heldInst-- { // an instantiation without any throw: replay rejects it
		obs = append(obs, ob{4, 0})
	}
	var sb []string
	for _, x := range obs {
		sb = append(sb, fmt.Sprintf("(%d,%d)", x.k, x.i))
	}
	return fmt.Sprintf("(%s,[%s])", natList(throwers), strings.Join(sb, ";"))
}

// c18LoopedCatch: process 0 throws twice (H0, then H0b after task A0) at the catch event C1 of process 1; C1 sits in a
// loop (C1 -> B1 -> back to C1 while B1 answers again = true). Each throw wakes the catch event once: B1 is requested
// after the first throw, and again after the second, however long the delivery of the first takes (process 1 is
// padded with `pad` tasks no token ever reaches: every event is offered to every node).
// settled = true: the driver waits 150 ms after the catch event's announcement that it listens before it lets the
// thrower go on; settled = false: the thrower goes on at once (until /repo 656cb12 the throw could then be handled
// before the set's watcher had registered the catch event, and was lost).
func c18LoopedCatch(env *Env, rep *Report, pad, rounds int, settled bool) {
	p0 := &Prog{}
	p0.Node("start", "s0")
	p0.Node("task", "T0")
	h := p0.Node("throw", "H0")
	h.Inner = `<bpmn:messageEventDefinition id="hd0"/>`
	p0.Node("task", "A0")
	h2 := p0.Node("throw", "H0b")
	h2.Inner = `<bpmn:messageEventDefinition id="hd0b"/>`
	p0.Node("end", "e0")
	p0.Flow("s0", "T0", "")
	p0.Flow("T0", "H0", "")
	p0.Flow("H0", "A0", "")
	p0.Flow("A0", "H0b", "")
	p0.Flow("H0b", "e0", "")
	p1 := &Prog{nflow: 300}
	p1.Node("start", "s1")
	p1.Node("xor", "M1")
	c := p1.Node("catch", "C1")
	c.Inner = `<bpmn:messageEventDefinition id="cd1" messageRef="m1"/>`
	b := p1.Node("task", "B1")
	b.Results = []string{"again"}
	d := p1.Node("xor", "D1")
	p1.Node("end", "e1")
	p1.Flow("s1", "M1", "")
	p1.Flow("M1", "C1", "")
	p1.Flow("C1", "B1", "")
	p1.Flow("B1", "D1", "")
	p1.Flow("D1", "M1", "again")
	d.Default = p1.Flow("D1", "e1", "").ID
	for i := 0; i < pad; i++ {
		p1.Node("plaintask", fmt.Sprintf("pad%d", i))
	}
	xmlText := SetXML([]*Prog{p0, p1}, []bool{true, true}, [][2]string{{"H0", "C1"}, {"H0b", "C1"}}, `<bpmn:message id="m1" name="m1"/>`)
	for r := 0; r < rounds && !rep.Saturated(); r++ {
		cs := fmt.Sprintf("two throws at a catch event that sits in a loop, the caught process padded with %d unreached tasks, thrower released 150 ms after the catch event listens: %v (round %d)", pad, settled, r)
		env.Current(cs)
		defs, err := ParseDefs(xmlText)
		must(err)
		ctx, cancel := context.WithCancel(context.Background())
		tr := tracing.NewTracer(ctx)
		col := NewCollector(tr)
		eng := bpmn.NewEngine(bpmn.WithEngineContext(ctx))
		ps, err := eng.NewProcessSet(defs, bpmn.WithContext(ctx), bpmn.WithTracer(tr), bpmn.WithVariables(map[string]any{"again": false}))
		must(err)
		must(ps.StartAll(ctx))
		rep.Evaluations++
		rep.Nontrivial++
		rep.Count("looped_catch")
		problem := ""
		step := func(task, what string, opts ...bpmn.DoOption) {
			if problem == "" && !col.Answer(task, tmoStep, opts...) {
				problem = what
			}
		}
		if !col.WaitUntil(tmoStep, func(l []Ev) bool { return countEv(l, "listening", "C1") >= 1 }) {
			problem = "the catch event never listened"
		}
		if settled {
			time.Sleep(150 * time.Millisecond)
		}
		step("T0", "T0 was not requested")
		step("B1", "first throw: the catch event was not woken (B1 not requested)", bpmn.DoWithResults(map[string]any{"again": true}))
		if problem == "" && !col.WaitUntil(tmoStep, func(l []Ev) bool { return countEv(l, "listening", "C1") >= 2 }) {
			problem = "the token did not come back to the catch event (it did not announce that it listens again)"
		}
		if problem == "" && settled {
			time.Sleep(150 * time.Millisecond)
		}
		step("A0", "A0 was not requested")
		step("B1", "second throw: the catch event was not woken again (B1 not requested a second time)", bpmn.DoWithResults(map[string]any{"again": false}))
		if problem == "" {
			c2, cc := context.WithTimeout(context.Background(), tmoStep)
			if !ps.WaitUntilComplete(c2) {
				problem = "all tasks answered, the set did not complete"
			}
			cc()
		}
		if problem != "" {
			rep.Violate("C18-message-flow", cs, problem+"; log: "+tailStr(logString(col.Log()), 1500))
		}
		cancel()
	}
}

// c18OwnVariables: the processes of a set started with WithVariables each have their own variables ("each behaves as
// it would alone"): process 0 stores flag = true as a task result; process 1, whose gateway reads flag afterwards,
// still sees the value the set was started with.
func c18OwnVariables(env *Env, rep *Report) {
	cs := "two executable processes started with flag = false; process 0 stores flag = true, then process 1's gateway reads flag"
	env.Current(cs)
	p0 := &Prog{}
	p0.Node("start", "s0")
	t0 := p0.Node("task", "T0")
	t0.Results = []string{"flag"}
	p0.Node("end", "e0")
	p0.Flow("s0", "T0", "")
	p0.Flow("T0", "e0", "")
	p1 := &Prog{nflow: 300}
	p1.Node("start", "s1")
	p1.Node("task", "R1")
	x := p1.Node("xor", "X1")
	p1.Node("task", "Byes")
	p1.Node("task", "Bno")
	p1.Node("end", "e1")
	p1.Flow("s1", "R1", "")
	p1.Flow("R1", "X1", "")
	p1.Flow("X1", "Byes", "flag")
	x.Default = p1.Flow("X1", "Bno", "").ID
	p1.Flow("Byes", "e1", "")
	p1.Flow("Bno", "e1", "")
	defs, err := ParseDefs(SetXML([]*Prog{p0, p1}, []bool{true, true}, nil, ""))
	must(err)
	ctx, cancel := context.WithCancel(context.Background())
	defer cancel()
	tr := tracing.NewTracer(ctx)
	col := NewCollector(tr)
	eng := bpmn.NewEngine(bpmn.WithEngineContext(ctx))
	ps, err := eng.NewProcessSet(defs, bpmn.WithContext(ctx), bpmn.WithTracer(tr), bpmn.WithVariables(map[string]any{"flag": false}))
	must(err)
	must(ps.StartAll(ctx))
	rep.Evaluations++
	rep.Nontrivial++
	rep.Count("own_variables")
	problem := ""
	if !col.WaitUntil(tmoStep, func(l []Ev) bool { return countEv(l, "task", "R1") >= 1 }) {
		problem = "R1 not requested"
	} else if !col.Answer("T0", tmoStep, bpmn.DoWithResults(map[string]any{"flag": true})) {
		problem = "T0 not requested"
	} else if !col.WaitUntil(tmoStep, func(l []Ev) bool { return countEv(l, "visit", "e0") >= 1 }) {
		problem = "process 0 did not reach its end"
	} else if !col.Answer("R1", tmoStep) {
		problem = "R1 not pending"
	} else if !col.WaitUntil(tmoStep, func(l []Ev) bool { return countEv(l, "task", "Byes")+countEv(l, "task", "Bno") >= 1 }) {
		problem = "process 1's gateway routed nowhere"
	} else if countEv(col.Log(), "task", "Bno") != 1 {
		problem = "process 1 was routed by the value process 0 stored (Byes requested), not by its own flag = false"
	}
	if problem != "" {
		rep.Violate("C18-stuck", cs, problem+"; log: "+tailStr(logString(col.Log()), 1200))
	}
}
