package main

// Block-structured programs (shared by C01, C12): a small algebra compiled to BPMN XML, a Go copy of the
// block semantics used only to know which task requests to wait for (the Coq model in Model/Blocks.v
// re-checks every observed run), and a driver that answers pending tasks in a seeded order.

import (
	"sync"
	"fmt"
	"math/rand"
	"sort"
	"strings"
	"time"

	bpmn "github.com/olive-io/bpmn/v2"
	"github.com/olive-io/bpmn/v2/pkg/id"
)

type Blk struct {
	Kind string // task seq par if loop sub skip incl ctask end
	ID   int    // task, ctask: task number; if/loop: variable index; incl: first variable; end: number of the end event; gateways get numbers at compile time
	Kids []*Blk // seq, par: n kids; if: [then, else]; loop, sub: [body]; incl: [a, b, default]; ctask: [then, else]
	N    int    // loop: number of iterations the driver asks for; incl: second variable; ctask: variable
}

func (b *Blk) Coq() string {
	switch b.Kind {
	case "task":
		return fmt.Sprintf("(BTask %d)", b.ID)
	case "skip":
		return "BSkip"
	case "seq", "par":
		c := map[string]string{"seq": "BSeq", "par": "BPar"}[b.Kind]
		if len(b.Kids) == 0 {
			return "BSkip"
		}
		s := b.Kids[len(b.Kids)-1].Coq()
		for i := len(b.Kids) - 2; i >= 0; i-- {
			s = fmt.Sprintf("(%s %s %s)", c, b.Kids[i].Coq(), s)
		}
		return s
	case "if":
		return fmt.Sprintf("(BIf %d %s %s)", b.ID, b.Kids[0].Coq(), b.Kids[1].Coq())
	case "loop":
		return fmt.Sprintf("(BLoop %d %s)", b.ID, b.Kids[0].Coq())
	case "sub":
		return fmt.Sprintf("(BSub %s)", b.Kids[0].Coq())
	case "incl":
		return fmt.Sprintf("(BIncl %d %d %s %s %s)", b.ID, b.N, b.Kids[0].Coq(), b.Kids[1].Coq(), b.Kids[2].Coq())
	case "ctask":
		return fmt.Sprintf("(BCond %d %d %s %s)", b.ID, b.N, b.Kids[0].Coq(), b.Kids[1].Coq())
	case "end":
		return fmt.Sprintf("(BEnd %d)", b.ID)
	}
	panic("kind " + b.Kind)
}

// mayExit: can a token leave the block (false: every path through it ends in an end event of its own)
func (b *Blk) mayExit() bool {
	switch b.Kind {
	case "end":
		return false
	case "seq", "par":
		for _, k := range b.Kids {
			if !k.mayExit() {
				return false
			}
		}
		return true
	case "if", "ctask", "incl":
		for _, k := range b.Kids {
			if k.mayExit() {
				return true
			}
		}
		return false
	case "loop":
		return b.Kids[0].mayExit()
	}
	return true
}

func (b *Blk) String() string { return b.Coq() }

// Flatten removes the sub-process wrappers.
func (b *Blk) Flatten() *Blk {
	if b.Kind == "sub" {
		return b.Kids[0].Flatten()
	}
	c := *b
	c.Kids = nil
	for _, k := range b.Kids {
		c.Kids = append(c.Kids, k.Flatten())
	}
	return &c
}

func (b *Blk) HasSub() bool {
	if b.Kind == "sub" {
		return true
	}
	for _, k := range b.Kids {
		if k.HasSub() {
			return true
		}
	}
	return false
}

// ---- compilation to BPMN ----

type blkCompiler struct {
	n    int
	subs [][2]string // (sub-process node, its inner start event)
}

func (c *blkCompiler) fresh(prefix string) string { c.n++; return fmt.Sprintf("%s%d", prefix, c.n) }

// noExit as the exit node: no token leaves the block (all its paths end in end events of their own)
const noExit = "!"

// link connects the exit of a compiled block to a node, unless no token leaves the block
func link(p *Prog, out, to, cond string) {
	if out != noExit {
		p.Flow(out, to, cond)
	}
}

// compile adds the block to p and returns its entry and exit node ids ("" , "" for an empty block: the
// caller connects its predecessor directly to its successor).  n-ary seq/par compile as right-nested
// binary blocks, exactly as Coq() prints them.
func (c *blkCompiler) compile(p *Prog, b *Blk) (in, out string) {
	switch b.Kind {
	case "skip":
		return "", ""
	case "end":
		id := fmt.Sprintf("E%d", b.ID)
		p.Node("end", id)
		return id, noExit
	case "task":
		id := fmt.Sprintf("T%d", b.ID)
		n := p.Node("task", id)
		n.Results = []string{"v0", "v1", "v2", "v3"}
		return id, id
	case "seq":
		if len(b.Kids) == 0 {
			return "", ""
		}
		if len(b.Kids) == 1 {
			return c.compile(p, b.Kids[0])
		}
		in1, out1 := c.compile(p, b.Kids[0])
		if out1 == noExit { // what follows an end event is unreachable
			return in1, noExit
		}
		in2, out2 := c.compile(p, &Blk{Kind: "seq", Kids: b.Kids[1:]})
		if in1 == "" {
			return in2, out2
		}
		if in2 == "" {
			return in1, out1
		}
		p.Flow(out1, in2, "")
		return in1, out2
	case "par":
		if len(b.Kids) == 0 {
			return "", ""
		}
		if len(b.Kids) == 1 {
			return c.compile(p, b.Kids[0])
		}
		f, j := c.fresh("F"), c.fresh("J")
		p.Node("par", f)
		p.Node("par", j)
		for _, k := range []*Blk{b.Kids[0], {Kind: "par", Kids: b.Kids[1:]}} {
			ki, ko := c.compile(p, k)
			if ki == "" {
				p.Flow(f, j, "")
			} else {
				p.Flow(f, ki, "")
				link(p, ko, j, "")
			}
		}
		return f, j
	case "if":
		x, m := c.fresh("X"), c.fresh("M")
		xn := p.Node("xor", x)
		if b.mayExit() {
			p.Node("xor", m)
		}
		then := func() {
			ti, to := c.compile(p, b.Kids[0])
			if ti == "" {
				p.Flow(x, m, fmt.Sprintf("v%d", b.ID))
			} else {
				p.Flow(x, ti, fmt.Sprintf("v%d", b.ID))
				link(p, to, m, "")
			}
		}
		els := func() {
			ei, eo := c.compile(p, b.Kids[1])
			if ei == "" {
				xn.Default = p.Flow(x, m, "").ID
			} else {
				xn.Default = p.Flow(x, ei, "").ID
				link(p, eo, m, "")
			}
		}
		if c.n%4 < 2 { // the order in which the outgoing flows are listed must not matter: default flow last / first
			then()
			els()
		} else {
			els()
			then()
		}
		if !b.mayExit() {
			return x, noExit
		}
		return x, m
	case "loop": // merge -> body -> split; split -[v]-> merge; default -> out
		m, x := c.fresh("M"), c.fresh("X")
		p.Node("xor", m)
		xn := p.Node("xor", x)
		bi, bo := c.compile(p, b.Kids[0])
		if bi == "" || bo == noExit {
			panic("loop with an empty body or a body that no token leaves")
		}
		p.Flow(m, bi, "")
		p.Flow(bo, x, "")
		p.Flow(x, m, fmt.Sprintf("v%d", b.ID))
		o := c.fresh("O") // a pass-through merge so that the loop has a single exit node
		p.Node("xor", o)
		xn.Default = p.Flow(x, o, "").ID
		return m, o
	case "incl":
		f, j := c.fresh("IF"), c.fresh("IJ")
		fn := p.Node("incl", f)
		if b.mayExit() {
			p.Node("incl", j)
		}
		for i, k := range b.Kids {
			cond := ""
			if i == 0 {
				cond = fmt.Sprintf("v%d", b.ID)
			} else if i == 1 {
				cond = fmt.Sprintf("v%d", b.N)
			}
			ki, ko := c.compile(p, k)
			var fl *PFlow
			if ki == "" {
				fl = p.Flow(f, j, cond)
			} else {
				fl = p.Flow(f, ki, cond)
				link(p, ko, j, "")
			}
			if i == 2 {
				fn.Default = fl.ID
			}
		}
		if !b.mayExit() {
			return f, noExit
		}
		return f, j
	case "ctask":
		id := fmt.Sprintf("T%d", b.ID)
		n := p.Node("task", id)
		n.Results = []string{"v0", "v1", "v2", "v3"}
		m := c.fresh("M")
		if b.mayExit() {
			p.Node("xor", m)
		}
		for i, k := range b.Kids {
			cond := fmt.Sprintf("v%d", b.N)
			if i == 1 {
				cond = "!" + cond
			}
			ki, ko := c.compile(p, k)
			if ki == "" {
				p.Flow(id, m, cond)
			} else {
				p.Flow(id, ki, cond)
				link(p, ko, m, "")
			}
		}
		if !b.mayExit() {
			return id, noExit
		}
		return id, m
	case "sub":
		s := c.fresh("S")
		n := p.Node("sub", s)
		n.Sub = &Prog{nflow: 1000 * c.n}
		st, en := c.fresh("ss"), c.fresh("se")
		c.subs = append(c.subs, [2]string{s, st})
		n.Sub.Node("start", st)
		bi, bo := c.compile(n.Sub, b.Kids[0])
		if bo != noExit {
			n.Sub.Node("end", en)
		}
		if bi == "" {
			n.Sub.Flow(st, en, "")
		} else {
			n.Sub.Flow(st, bi, "")
			link(n.Sub, bo, en, "")
		}
		return s, s
	}
	panic("kind " + b.Kind)
}

func BlkProg(b *Blk) *Prog { p, _ := BlkProgSubs(b); return p }

func BlkProgSubs(b *Blk) (*Prog, [][2]string) {
	c := &blkCompiler{}
	p := &Prog{}
	p.Node("start", "start")
	in, out := c.compile(p, b)
	if out != noExit {
		p.Node("end", "end")
	}
	if in == "" {
		p.Flow("start", "end", "")
	} else {
		p.Flow("start", in, "")
		link(p, out, "end", "")
	}
	return p, c.subs
}

// SubEvents projects a trace log onto the activation protocol of each sub-process node:
// 0 = a parent token enters, 1 = the inner start event flows, 3 = the parent token continues.
func SubEvents(subs [][2]string, log []Ev) string {
	var all []string
	for _, s := range subs {
		var evs []int
		for _, e := range log {
			switch {
			case e.K == "visit" && e.N == s[0]:
				evs = append(evs, 0)
			case e.K == "flow" && e.N == s[1]:
				evs = append(evs, 1)
			case e.K == "flow" && e.N == s[0]:
				evs = append(evs, 3)
			}
		}
		all = append(all, natList(evs))
	}
	return "[" + strings.Join(all, ";") + "]"
}

// ---- Go copy of the block semantics (expectation generator only) ----

type brun struct {
	kind string // done ended task seq par incl loop sub
	id   int
	a, b *brun
	rest *Blk
	v    int
}

var bdone = &brun{kind: "done"}
var bended = &brun{kind: "ended"}

// fin: the block is finished and one token leaves it; ended: finished, no token leaves it (Model/Blocks.v)
func (r *brun) fin() bool {
	switch r.kind {
	case "done":
		return true
	case "par":
		return r.a.fin() && r.b.fin()
	case "sub":
		return r.a.fin() || r.a.ended()
	case "incl":
		return (r.a.fin() || r.a.ended()) && (r.b.fin() || r.b.ended()) && (r.a.fin() || r.b.fin())
	}
	return false
}
func (r *brun) ended() bool {
	switch r.kind {
	case "ended":
		return true
	case "incl":
		return r.a.ended() && r.b.ended()
	}
	return false
}

// bstart: ends collects the end events reached on the way
func bstart(env []bool, b *Blk, ends *[]int) *brun {
	switch b.Kind {
	case "skip":
		return bdone
	case "end":
		*ends = append(*ends, b.ID)
		return bended
	case "task":
		return &brun{kind: "task", id: b.ID}
	case "seq":
		if len(b.Kids) == 0 {
			return bdone
		}
		if len(b.Kids) == 1 {
			return bstart(env, b.Kids[0], ends)
		}
		return bseq(env, bstart(env, b.Kids[0], ends), &Blk{Kind: "seq", Kids: b.Kids[1:]}, ends)
	case "par":
		if len(b.Kids) == 0 {
			return bdone
		}
		if len(b.Kids) == 1 {
			return bstart(env, b.Kids[0], ends)
		}
		x := bstart(env, b.Kids[0], ends)
		return &brun{kind: "par", a: x, b: bstart(env, &Blk{Kind: "par", Kids: b.Kids[1:]}, ends)}
	case "if":
		if env[b.ID] {
			return bstart(env, b.Kids[0], ends)
		}
		return bstart(env, b.Kids[1], ends)
	case "loop":
		return bloop(env, bstart(env, b.Kids[0], ends), b, ends)
	case "sub":
		return &brun{kind: "sub", a: bstart(env, b.Kids[0], ends)}
	case "incl":
		if env[b.ID] || env[b.N] {
			a, bb := bended, bended
			if env[b.ID] {
				a = bstart(env, b.Kids[0], ends)
			}
			if env[b.N] {
				bb = bstart(env, b.Kids[1], ends)
			}
			return &brun{kind: "incl", a: a, b: bb}
		}
		return bstart(env, b.Kids[2], ends)
	case "ctask":
		return bseq(env, &brun{kind: "task", id: b.ID}, &Blk{Kind: "if", ID: b.N, Kids: b.Kids}, ends)
	}
	panic("kind")
}

func bseq(env []bool, r *brun, rest *Blk, ends *[]int) *brun {
	if r.fin() {
		return bstart(env, rest, ends)
	}
	if r.ended() {
		return bended
	}
	return &brun{kind: "seq", a: r, rest: rest}
}
func bloop(env []bool, r *brun, l *Blk, ends *[]int) *brun {
	fuel := 64
	for r.fin() && fuel > 0 {
		if !env[l.ID] {
			return bdone
		}
		r = bstart(env, l.Kids[0], ends)
		fuel--
	}
	if r.fin() {
		return bdone
	}
	if r.ended() {
		return bended
	}
	return &brun{kind: "loop", a: r, rest: l}
}

func (r *brun) pending(out *[]int) {
	switch r.kind {
	case "task":
		*out = append(*out, r.id)
	case "seq", "loop", "sub":
		r.a.pending(out)
	case "par", "incl":
		r.a.pending(out)
		r.b.pending(out)
	}
}

// answer the pending task id (env already updated with its writes)
func (r *brun) answer(env []bool, id int, ends *[]int) *brun {
	switch r.kind {
	case "task":
		if r.id == id {
			return bdone
		}
		return r
	case "seq":
		return bseq(env, r.a.answer(env, id, ends), r.rest, ends)
	case "loop":
		return bloop(env, r.a.answer(env, id, ends), r.rest, ends)
	case "sub":
		return &brun{kind: "sub", a: r.a.answer(env, id, ends)}
	case "par", "incl":
		x := r.a.answer(env, id, ends)
		return &brun{kind: r.kind, a: x, b: r.b.answer(env, id, ends)}
	}
	return r
}

// ---- random programs ----

type blkGen struct {
	rng   *rand.Rand
	ntask int
	loops int
	full  bool // also inclusive blocks and tasks with conditional outgoing flows (C01)
	noGw  int  // > 0 while generating the branches of an inclusive block: no parallel/inclusive block there (known finding C01-gateway-nested-in-inclusive)
	ends  bool // also end events of their own inside exclusive / inclusive / conditional branches (C01)
	noEnd int  // > 0 while generating the branches of a parallel block: an end event there would starve the join
	nend  int
}

// endBranch: a branch that finishes in an end event of its own, at once or after one task
func (g *blkGen) endBranch() *Blk {
	g.nend++
	e := &Blk{Kind: "end", ID: g.nend}
	if g.rng.Intn(2) == 0 {
		return e
	}
	g.ntask++
	return &Blk{Kind: "seq", Kids: []*Blk{{Kind: "task", ID: g.ntask}, e}}
}
func (g *blkGen) maybeEnd(b *Blk, nkids int) {
	if g.ends && g.noEnd == 0 && g.rng.Intn(4) == 0 {
		b.Kids[g.rng.Intn(nkids)] = g.endBranch()
	}
}

// gen produces a block with at most `size` tasks; loopTask remembers, per loop, the task whose answers steer it
func (g *blkGen) gen(size, depth int, allowLoop bool) *Blk {
	if size <= 1 || depth == 0 {
		g.ntask++
		return &Blk{Kind: "task", ID: g.ntask}
	}
	if g.full {
		switch k := g.rng.Intn(10); {
		case k < 2 && g.noGw == 0:
			b := &Blk{Kind: "incl", ID: g.rng.Intn(3), N: g.rng.Intn(3)}
			g.noGw++
			for i := 0; i < 3; i++ {
				b.Kids = append(b.Kids, g.gen(size/3+1, depth-1, false))
			}
			g.noGw--
			if g.rng.Intn(3) == 0 {
				b.Kids[g.rng.Intn(3)] = &Blk{Kind: "skip"}
			}
			g.maybeEnd(b, 3)
			return b
		case k < 4:
			g.ntask++
			b := &Blk{Kind: "ctask", ID: g.ntask, N: g.rng.Intn(3)}
			b.Kids = []*Blk{g.gen(size/2, depth-1, allowLoop), g.gen(size/2, depth-1, allowLoop)}
			if g.rng.Intn(3) == 0 {
				b.Kids[g.rng.Intn(2)] = &Blk{Kind: "skip"}
			}
			g.maybeEnd(b, 2)
			return b
		}
	}
	switch k := g.rng.Intn(10); {
	case k < 3:
		n := 2 + g.rng.Intn(2)
		b := &Blk{Kind: "seq"}
		for i := 0; i < n; i++ {
			b.Kids = append(b.Kids, g.gen(size/n+1, depth-1, allowLoop))
		}
		return b
	case k < 6 && g.noGw == 0:
		n := 2 + g.rng.Intn(2)
		b := &Blk{Kind: "par"}
		g.noEnd++
		for i := 0; i < n; i++ {
			b.Kids = append(b.Kids, g.gen(size/n, depth-1, allowLoop && g.full)) // C01: a loop may sit inside a parallel branch
		}
		g.noEnd--
		return b
	case k < 8:
		b := &Blk{Kind: "if", ID: g.rng.Intn(3)} // v0..v2 steer branches; v3 is reserved for loops
		b.Kids = []*Blk{g.gen(size/2, depth-1, allowLoop), g.gen(size/2, depth-1, allowLoop)}
		if g.rng.Intn(4) == 0 {
			b.Kids[g.rng.Intn(2)] = &Blk{Kind: "skip"}
		}
		g.maybeEnd(b, 2)
		return b
	case k < 9 && allowLoop && g.loops == 0:
		g.loops++
		g.ntask++
		first := &Blk{Kind: "task", ID: g.ntask} // every iteration requests at least this task: no busy loop
		return &Blk{Kind: "loop", ID: 3, N: 2 + g.rng.Intn(2), Kids: []*Blk{{Kind: "seq", Kids: []*Blk{first, g.gen(size/2, depth-1, false)}}}}
	default:
		g.ntask++
		return &Blk{Kind: "task", ID: g.ntask}
	}
}

// wrap puts `levels` sub-process wrappers around a randomly chosen block
func (g *blkGen) wrap(b *Blk, levels int) *Blk {
	var nodes []*Blk
	var walk func(x *Blk)
	walk = func(x *Blk) {
		if x.Kind != "skip" {
			nodes = append(nodes, x)
		}
		for _, k := range x.Kids {
			walk(k)
		}
	}
	c := b.Flatten() // deep copy
	walk(c)
	t := nodes[g.rng.Intn(len(nodes))]
	inner := *t
	w := &inner
	for i := 0; i < levels; i++ {
		w = &Blk{Kind: "sub", Kids: []*Blk{w}}
	}
	*t = *w
	return c
}

// ---- driver ----

type blkStep struct {
	task    int
	writes  [4]int // -1 = not written, 0/1 value
	pending []int  // observed pending requests after the answer (sorted)
	ends    []int  // end events (of their own) reached by the step (sorted)
}

type blkObs struct {
	first     []int // pending after start
	ends0     []int // end events reached at start
	finalEnd  bool  // the program's final end event was reached
	steps     []blkStep
	completed bool
	vars      [4]bool
	problem   string // a request that never came / an unexpected one / no completion
	log       []Ev
	landmarks int
}

func sortedCopy(l []int) []int { c := append([]int{}, l...); sort.Ints(c); return c }

func intsEq(a, b []int) bool {
	if len(a) != len(b) {
		return false
	}
	for i := range a {
		if a[i] != b[i] {
			return false
		}
	}
	return true
}

func pendingInts(in *Inst) []int {
	var out []int
	for _, n := range in.PendingNodes() {
		var i int
		fmt.Sscanf(n, "T%d", &i)
		out = append(out, i)
	}
	sort.Ints(out)
	return out
}

// waitPending waits until the observed pending set equals want (up to tmoStep), then a short settle to let
// any surplus request show up.
func waitPending(in *Inst, want []int) []int {
	deadline := time.Now().Add(tmoStep)
	for time.Now().Before(deadline) {
		if intsEq(pendingInts(in), want) {
			break
		}
		time.Sleep(200 * time.Microsecond)
	}
	time.Sleep(3 * time.Millisecond)
	return pendingInts(in)
}

// endEvents lists the end events of their own (nodes E<k>) that tokens have reached so far, with multiplicity, sorted
func endEvents(in *Inst) []int {
	var out []int
	for _, e := range in.Log() {
		var k int
		// a token arriving at the end event (the completion traces of tokens inside a sub-process are not forwarded)
		if e.K == "visit" && strings.HasPrefix(e.N, "E") {
			if _, err := fmt.Sscanf(e.N, "E%d", &k); err == nil {
				out = append(out, k)
			}
		}
	}
	sort.Ints(out)
	return out
}

// waitEnds waits until the end events reached so far are `seen` plus `want` (up to tmoStep) and returns the new ones
func waitEnds(in *Inst, seen []int, want []int) []int {
	total := sortedCopy(append(append([]int{}, seen...), want...))
	deadline := time.Now().Add(tmoStep)
	for time.Now().Before(deadline) {
		if intsEq(endEvents(in), total) {
			break
		}
		time.Sleep(200 * time.Microsecond)
	}
	// the new ones: multiset difference
	cnt := map[int]int{}
	for _, k := range seen {
		cnt[k]++
	}
	var fresh []int
	for _, k := range endEvents(in) {
		if cnt[k] > 0 {
			cnt[k]--
		} else {
			fresh = append(fresh, k)
		}
	}
	return fresh
}

// RunBlk drives one instance of the program: answers pending tasks in the order chosen by choose (index
// into the sorted observed pending list), writing variables as writesFor decides.
func RunBlk(b *Blk, env0 [4]bool, choose func(n int) int, writesFor func(task, nth int) [4]int, maxSteps int, opts ...bpmn.Option) blkObs {
	defs, err := ParseDefsShared(BlkProg(b).XML("")) // every script of a program runs on the one parsed document
	must(err)
	vars := map[string]any{}
	env := make([]bool, 4)
	for i, v := range env0 {
		vars[fmt.Sprintf("v%d", i)] = v
		env[i] = v
	}
	// one option value per initial assignment, made once and handed to every instance that starts with that assignment
	// (an application prepares its options once): the instances do not share what they write
	blkVarOptions.Lock()
	vo, ok := blkVarOptions.m[env0]
	if !ok {
		vo = bpmn.WithVariables(vars)
		blkVarOptions.m[env0] = vo
	}
	blkVarOptions.Unlock()
	in, err := StartInst(defs, InstOpt{Opts: append([]bpmn.Option{vo}, opts...)})
	must(err)
	defer in.Close()
	return DriveBlk(in, b, env0, choose, writesFor, maxSteps)
}

var blkVarOptions = struct {
	sync.Mutex
	m map[[4]bool]bpmn.Option
}{m: map[[4]bool]bpmn.Option{}}

// DriveBlk drives an instance of the program that has already been started with the variables env0
func DriveBlk(in *Inst, b *Blk, env0 [4]bool, choose func(n int) int, writesFor func(task, nth int) [4]int, maxSteps int) blkObs {
	var o blkObs
	env := make([]bool, 4)
	for i, v := range env0 {
		env[i] = v
	}
	var wantEnds, seenEnds []int
	r := bstart(env, b, &wantEnds)
	var want []int
	r.pending(&want)
	o.first = waitPending(in, sortedCopy(want))
	o.ends0 = waitEnds(in, seenEnds, wantEnds)
	seenEnds = append(seenEnds, o.ends0...)
	if !intsEq(o.ends0, sortedCopy(wantEnds)) {
		o.problem = fmt.Sprintf("after the start: end events reached %v, token game expects %v", o.ends0, sortedCopy(wantEnds))
	}
	if !intsEq(o.first, sortedCopy(want)) {
		o.problem = fmt.Sprintf("after the start: pending requests %v, token game expects %v", o.first, sortedCopy(want))
	}
	cur := o.first
	nth := map[int]int{}
	for len(cur) > 0 && len(o.steps) < maxSteps && o.problem == "" {
		t := cur[choose(len(cur))]
		nth[t]++
		w := writesFor(t, nth[t])
		res := map[string]any{}
		for i, x := range w {
			if x >= 0 {
				res[fmt.Sprintf("v%d", i)] = x == 1
				env[i] = x == 1
			}
		}
		if !in.Answer(fmt.Sprintf("T%d", t), time.Second, bpmn.DoWithResults(res)) {
			o.problem = fmt.Sprintf("pending task T%d could not be answered", t)
			break
		}
		wantEnds = nil
		r = r.answer(env, t, &wantEnds)
		want = nil
		r.pending(&want)
		cur = waitPending(in, sortedCopy(want))
		fresh := waitEnds(in, seenEnds, wantEnds)
		seenEnds = append(seenEnds, fresh...)
		o.steps = append(o.steps, blkStep{task: t, writes: w, pending: cur, ends: fresh})
		if !intsEq(cur, sortedCopy(want)) {
			o.problem = fmt.Sprintf("after answering T%d: pending requests %v, token game expects %v", t, cur, sortedCopy(want))
			break
		}
		if !intsEq(fresh, sortedCopy(wantEnds)) {
			o.problem = fmt.Sprintf("after answering T%d: end events reached %v, token game expects %v", t, fresh, sortedCopy(wantEnds))
			break
		}
	}
	if o.problem == "" && len(cur) == 0 {
		o.completed = in.WaitCease(tmoStep)
		if !o.completed {
			o.problem = "no task pending but the instance did not complete"
		}
	}
	time.Sleep(2 * time.Millisecond)
	for i := 0; i < 4; i++ {
		if v, ok := in.P.Locator().GetVariable(fmt.Sprintf("v%d", i)); ok {
			if bv, ok := v.(bool); ok {
				o.vars[i] = bv
			}
		}
	}
	o.log = in.Log()
	o.landmarks = countEv(o.log, "other", "*")
	o.finalEnd = countEv(o.log, "complete", "end") > 0
	if o.problem == "" && o.completed && o.finalEnd != r.fin() {
		o.problem = fmt.Sprintf("the program's final end event reached: %v, token game expects %v", o.finalEnd, r.fin())
	}
	return o
}

func (o *blkObs) CoqScript() string {
	var s []string
	for _, st := range o.steps {
		var ws []string
		for i, x := range st.writes {
			if x >= 0 {
				ws = append(ws, fmt.Sprintf("(%d,%s)", i, map[bool]string{true: "true", false: "false"}[x == 1]))
			}
		}
		s = append(s, fmt.Sprintf("(%d,[%s],%s,%s)", st.task, strings.Join(ws, ";"), natList(st.pending), natList(st.ends)))
	}
	return "[" + strings.Join(s, ";") + "]"
}

// CoqCase: the case tuple of Corr/C12corr.v
func (o *blkObs) CoqCase(b *Blk, env0 [4]bool, subs string) string {
	return fmt.Sprintf("(%s,%s,(%s,%s),%s,%s,%v,%s)", b.Coq(), envCoq(env0), natList(o.first), natList(o.ends0), o.CoqScript(), envCoq(o.vars), o.finalEnd, subs)
}

const blkCaseType = "blk * list bool * (list nat * list nat) * list ostep * list bool * bool * list (list nat)"

func envCoq(e [4]bool) string {
	var s []string
	for _, v := range e {
		s = append(s, map[bool]string{true: "true", false: "false"}[v])
	}
	return "[" + strings.Join(s, ";") + "]"
}

// slowGen is an id generator that takes its time: every new flow is created a little later, which lets
// the goroutines that do not create flows (completion monitors, trackers) run ahead of the tokens.
type slowGen struct{ d time.Duration }

func (g slowGen) Snapshot() ([]byte, error) { return sharedGen.Snapshot() }
func (g slowGen) New() id.Id                { time.Sleep(g.d); return sharedGen.New() }
