package main

// Block-structured programs (shared by C01, C12): a small algebra compiled to BPMN XML, a Go copy of the
// block semantics used only to know which task requests to wait for (the Coq model in Model/Blocks.v
// re-checks every observed run), and a driver that answers pending tasks in a seeded order.

import (
	"fmt"
	"math/rand"
	"sort"
	"strings"
	"time"

	bpmn "github.com/olive-io/bpmn/v2"
	"github.com/olive-io/bpmn/v2/pkg/id"
)

type Blk struct {
	Kind string // task seq par if loop sub skip incl ctask
	ID   int    // task, ctask: task number; if/loop: variable index; incl: first variable; gateways get numbers at compile time
	Kids []*Blk // seq, par: n kids; if: [then, else]; loop, sub: [body]; incl: [a, b, default]; ctask: [then, else]
	N    int    // loop: number of iterations the driver asks for; incl: second variable; ctask: variable
}

func (b *Blk) Coq() string {
	switch b.Kind {
	case "task":
		return fmt.Sprintf("(BTask %d)", b.ID)
	case "skip":
		return "BSkip"
	case "seq", "par":
		c := map[string]string{"seq": "BSeq", "par": "BPar"}[b.Kind]
		if len(b.Kids) == 0 {
			return "BSkip"
		}
		s := b.Kids[len(b.Kids)-1].Coq()
		for i := len(b.Kids) - 2; i >= 0; i-- {
			s = fmt.Sprintf("(%s %s %s)", c, b.Kids[i].Coq(), s)
		}
		return s
	case "if":
		return fmt.Sprintf("(BIf %d %s %s)", b.ID, b.Kids[0].Coq(), b.Kids[1].Coq())
	case "loop":
		return fmt.Sprintf("(BLoop %d %s)", b.ID, b.Kids[0].Coq())
	case "sub":
		return fmt.Sprintf("(BSub %s)", b.Kids[0].Coq())
	case "incl":
		return fmt.Sprintf("(BIncl %d %d %s %s %s)", b.ID, b.N, b.Kids[0].Coq(), b.Kids[1].Coq(), b.Kids[2].Coq())
	case "ctask":
		return fmt.Sprintf("(BCond %d %d %s %s)", b.ID, b.N, b.Kids[0].Coq(), b.Kids[1].Coq())
	}
	panic("kind " + b.Kind)
}

func (b *Blk) String() string { return b.Coq() }

// Flatten removes the sub-process wrappers.
func (b *Blk) Flatten() *Blk {
	if b.Kind == "sub" {
		return b.Kids[0].Flatten()
	}
	c := *b
	c.Kids = nil
	for _, k := range b.Kids {
		c.Kids = append(c.Kids, k.Flatten())
	}
	return &c
}

func (b *Blk) HasSub() bool {
	if b.Kind == "sub" {
		return true
	}
	for _, k := range b.Kids {
		if k.HasSub() {
			return true
		}
	}
	return false
}

// ---- compilation to BPMN ----

type blkCompiler struct {
	n    int
	subs [][2]string // (sub-process node, its inner start event)
}

func (c *blkCompiler) fresh(prefix string) string { c.n++; return fmt.Sprintf("%s%d", prefix, c.n) }

// compile adds the block to p and returns its entry and exit node ids ("" , "" for an empty block: the
// caller connects its predecessor directly to its successor).  n-ary seq/par compile as right-nested
// binary blocks, exactly as Coq() prints them.
func (c *blkCompiler) compile(p *Prog, b *Blk) (in, out string) {
	switch b.Kind {
	case "skip":
		return "", ""
	case "task":
		id := fmt.Sprintf("T%d", b.ID)
		n := p.Node("task", id)
		n.Results = []string{"v0", "v1", "v2", "v3"}
		return id, id
	case "seq":
		if len(b.Kids) == 0 {
			return "", ""
		}
		if len(b.Kids) == 1 {
			return c.compile(p, b.Kids[0])
		}
		in1, out1 := c.compile(p, b.Kids[0])
		in2, out2 := c.compile(p, &Blk{Kind: "seq", Kids: b.Kids[1:]})
		if in1 == "" {
			return in2, out2
		}
		if in2 == "" {
			return in1, out1
		}
		p.Flow(out1, in2, "")
		return in1, out2
	case "par":
		if len(b.Kids) == 0 {
			return "", ""
		}
		if len(b.Kids) == 1 {
			return c.compile(p, b.Kids[0])
		}
		f, j := c.fresh("F"), c.fresh("J")
		p.Node("par", f)
		p.Node("par", j)
		for _, k := range []*Blk{b.Kids[0], {Kind: "par", Kids: b.Kids[1:]}} {
			ki, ko := c.compile(p, k)
			if ki == "" {
				p.Flow(f, j, "")
			} else {
				p.Flow(f, ki, "")
				p.Flow(ko, j, "")
			}
		}
		return f, j
	case "if":
		x, m := c.fresh("X"), c.fresh("M")
		xn := p.Node("xor", x)
		p.Node("xor", m)
		then := func() {
			ti, to := c.compile(p, b.Kids[0])
			if ti == "" {
				p.Flow(x, m, fmt.Sprintf("v%d", b.ID))
			} else {
				p.Flow(x, ti, fmt.Sprintf("v%d", b.ID))
				p.Flow(to, m, "")
			}
		}
		els := func() {
			ei, eo := c.compile(p, b.Kids[1])
			if ei == "" {
				xn.Default = p.Flow(x, m, "").ID
			} else {
				xn.Default = p.Flow(x, ei, "").ID
				p.Flow(eo, m, "")
			}
		}
		if c.n%4 < 2 { // the order in which the outgoing flows are listed must not matter: default flow last / first
			then()
			els()
		} else {
			els()
			then()
		}
		return x, m
	case "loop": // merge -> body -> split; split -[v]-> merge; default -> out
		m, x := c.fresh("M"), c.fresh("X")
		p.Node("xor", m)
		xn := p.Node("xor", x)
		bi, bo := c.compile(p, b.Kids[0])
		if bi == "" {
			panic("loop with empty body")
		}
		p.Flow(m, bi, "")
		p.Flow(bo, x, "")
		p.Flow(x, m, fmt.Sprintf("v%d", b.ID))
		o := c.fresh("O") // a pass-through merge so that the loop has a single exit node
		p.Node("xor", o)
		xn.Default = p.Flow(x, o, "").ID
		return m, o
	case "incl":
		f, j := c.fresh("IF"), c.fresh("IJ")
		fn := p.Node("incl", f)
		p.Node("incl", j)
		for i, k := range b.Kids {
			cond := ""
			if i == 0 {
				cond = fmt.Sprintf("v%d", b.ID)
			} else if i == 1 {
				cond = fmt.Sprintf("v%d", b.N)
			}
			ki, ko := c.compile(p, k)
			var fl *PFlow
			if ki == "" {
				fl = p.Flow(f, j, cond)
			} else {
				fl = p.Flow(f, ki, cond)
				p.Flow(ko, j, "")
			}
			if i == 2 {
				fn.Default = fl.ID
			}
		}
		return f, j
	case "ctask":
		id := fmt.Sprintf("T%d", b.ID)
		n := p.Node("task", id)
		n.Results = []string{"v0", "v1", "v2", "v3"}
		m := c.fresh("M")
		p.Node("xor", m)
		for i, k := range b.Kids {
			cond := fmt.Sprintf("v%d", b.N)
			if i == 1 {
				cond = "!" + cond
			}
			ki, ko := c.compile(p, k)
			if ki == "" {
				p.Flow(id, m, cond)
			} else {
				p.Flow(id, ki, cond)
				p.Flow(ko, m, "")
			}
		}
		return id, m
	case "sub":
		s := c.fresh("S")
		n := p.Node("sub", s)
		n.Sub = &Prog{nflow: 1000 * c.n}
		st, en := c.fresh("ss"), c.fresh("se")
		c.subs = append(c.subs, [2]string{s, st})
		n.Sub.Node("start", st)
		bi, bo := c.compile(n.Sub, b.Kids[0])
		n.Sub.Node("end", en)
		if bi == "" {
			n.Sub.Flow(st, en, "")
		} else {
			n.Sub.Flow(st, bi, "")
			n.Sub.Flow(bo, en, "")
		}
		return s, s
	}
	panic("kind " + b.Kind)
}

func BlkProg(b *Blk) *Prog { p, _ := BlkProgSubs(b); return p }

func BlkProgSubs(b *Blk) (*Prog, [][2]string) {
	c := &blkCompiler{}
	p := &Prog{}
	p.Node("start", "start")
	in, out := c.compile(p, b)
	p.Node("end", "end")
	if in == "" {
		p.Flow("start", "end", "")
	} else {
		p.Flow("start", in, "")
		p.Flow(out, "end", "")
	}
	return p, c.subs
}

// SubEvents projects a trace log onto the activation protocol of each sub-process node:
// 0 = a parent token enters, 1 = the inner start event flows, 3 = the parent token continues.
func SubEvents(subs [][2]string, log []Ev) string {
	var all []string
	for _, s := range subs {
		var evs []int
		for _, e := range log {
			switch {
			case e.K == "visit" && e.N == s[0]:
				evs = append(evs, 0)
			case e.K == "flow" && e.N == s[1]:
				evs = append(evs, 1)
			case e.K == "flow" && e.N == s[0]:
				evs = append(evs, 3)
			}
		}
		all = append(all, natList(evs))
	}
	return "[" + strings.Join(all, ";") + "]"
}

// ---- Go copy of the block semantics (expectation generator only) ----

type brun struct {
	kind string // done task seq par loop sub
	id   int
	a, b *brun
	rest *Blk
	v    int
}

var bdone = &brun{kind: "done"}

func bstart(env []bool, b *Blk) *brun {
	switch b.Kind {
	case "skip":
		return bdone
	case "task":
		return &brun{kind: "task", id: b.ID}
	case "seq":
		if len(b.Kids) == 0 {
			return bdone
		}
		if len(b.Kids) == 1 {
			return bstart(env, b.Kids[0])
		}
		return bseq(env, bstart(env, b.Kids[0]), &Blk{Kind: "seq", Kids: b.Kids[1:]})
	case "par":
		if len(b.Kids) == 0 {
			return bdone
		}
		if len(b.Kids) == 1 {
			return bstart(env, b.Kids[0])
		}
		return bpar(bstart(env, b.Kids[0]), bstart(env, &Blk{Kind: "par", Kids: b.Kids[1:]}))
	case "if":
		if env[b.ID] {
			return bstart(env, b.Kids[0])
		}
		return bstart(env, b.Kids[1])
	case "loop":
		return bloop(env, bstart(env, b.Kids[0]), b)
	case "sub":
		return bsub(bstart(env, b.Kids[0]))
	case "incl":
		if env[b.ID] || env[b.N] {
			a, bb := bdone, bdone
			if env[b.ID] {
				a = bstart(env, b.Kids[0])
			}
			if env[b.N] {
				bb = bstart(env, b.Kids[1])
			}
			return bpar(a, bb)
		}
		return bstart(env, b.Kids[2])
	case "ctask":
		return bseq(env, &brun{kind: "task", id: b.ID}, &Blk{Kind: "if", ID: b.N, Kids: b.Kids})
	}
	panic("kind")
}

func bseq(env []bool, r *brun, rest *Blk) *brun {
	if r.kind == "done" {
		return bstart(env, rest)
	}
	return &brun{kind: "seq", a: r, rest: rest}
}
func bpar(a, b *brun) *brun {
	if a.kind == "done" && b.kind == "done" {
		return bdone
	}
	return &brun{kind: "par", a: a, b: b}
}
func bsub(r *brun) *brun {
	if r.kind == "done" {
		return bdone
	}
	return &brun{kind: "sub", a: r}
}
func bloop(env []bool, r *brun, l *Blk) *brun {
	fuel := 64
	for r.kind == "done" && fuel > 0 {
		if !env[l.ID] {
			return bdone
		}
		r = bstart(env, l.Kids[0])
		fuel--
	}
	if r.kind == "done" {
		return bdone
	}
	return &brun{kind: "loop", a: r, rest: l}
}

func (r *brun) pending(out *[]int) {
	switch r.kind {
	case "task":
		*out = append(*out, r.id)
	case "seq", "loop", "sub":
		r.a.pending(out)
	case "par":
		r.a.pending(out)
		r.b.pending(out)
	}
}

// answer the pending task id (env already updated with its writes)
func (r *brun) answer(env []bool, id int) *brun {
	switch r.kind {
	case "task":
		if r.id == id {
			return bdone
		}
		return r
	case "seq":
		return bseq(env, r.a.answer(env, id), r.rest)
	case "loop":
		return bloop(env, r.a.answer(env, id), r.rest)
	case "sub":
		return bsub(r.a.answer(env, id))
	case "par":
		return bpar(r.a.answer(env, id), r.b.answer(env, id))
	}
	return r
}

// ---- random programs ----

type blkGen struct {
	rng   *rand.Rand
	ntask int
	loops int
	full  bool // also inclusive blocks and tasks with conditional outgoing flows (C01)
	noGw  int  // > 0 while generating the branches of an inclusive block: no parallel/inclusive block there (known finding C01-gateway-nested-in-inclusive)
}

// gen produces a block with at most `size` tasks; loopTask remembers, per loop, the task whose answers steer it
func (g *blkGen) gen(size, depth int, allowLoop bool) *Blk {
	if size <= 1 || depth == 0 {
		g.ntask++
		return &Blk{Kind: "task", ID: g.ntask}
	}
	if g.full {
		switch k := g.rng.Intn(10); {
		case k < 2 && g.noGw == 0:
			b := &Blk{Kind: "incl", ID: g.rng.Intn(3), N: g.rng.Intn(3)}
			g.noGw++
			for i := 0; i < 3; i++ {
				b.Kids = append(b.Kids, g.gen(size/3+1, depth-1, false))
			}
			g.noGw--
			if g.rng.Intn(3) == 0 {
				b.Kids[g.rng.Intn(3)] = &Blk{Kind: "skip"}
			}
			return b
		case k < 4:
			g.ntask++
			b := &Blk{Kind: "ctask", ID: g.ntask, N: g.rng.Intn(3)}
			b.Kids = []*Blk{g.gen(size/2, depth-1, allowLoop), g.gen(size/2, depth-1, allowLoop)}
			if g.rng.Intn(3) == 0 {
				b.Kids[g.rng.Intn(2)] = &Blk{Kind: "skip"}
			}
			return b
		}
	}
	switch k := g.rng.Intn(10); {
	case k < 3:
		n := 2 + g.rng.Intn(2)
		b := &Blk{Kind: "seq"}
		for i := 0; i < n; i++ {
			b.Kids = append(b.Kids, g.gen(size/n+1, depth-1, allowLoop))
		}
		return b
	case k < 6 && g.noGw == 0:
		n := 2 + g.rng.Intn(2)
		b := &Blk{Kind: "par"}
		for i := 0; i < n; i++ {
			b.Kids = append(b.Kids, g.gen(size/n, depth-1, false)) // a loop inside a parallel branch re-enters the join: kept out (C03 covers joins)
		}
		return b
	case k < 8:
		b := &Blk{Kind: "if", ID: g.rng.Intn(3)} // v0..v2 steer branches; v3 is reserved for loops
		b.Kids = []*Blk{g.gen(size/2, depth-1, allowLoop), g.gen(size/2, depth-1, allowLoop)}
		if g.rng.Intn(4) == 0 {
			b.Kids[g.rng.Intn(2)] = &Blk{Kind: "skip"}
		}
		return b
	case k < 9 && allowLoop && g.loops == 0:
		g.loops++
		g.ntask++
		first := &Blk{Kind: "task", ID: g.ntask} // every iteration requests at least this task: no busy loop
		return &Blk{Kind: "loop", ID: 3, N: 2 + g.rng.Intn(2), Kids: []*Blk{{Kind: "seq", Kids: []*Blk{first, g.gen(size/2, depth-1, false)}}}}
	default:
		g.ntask++
		return &Blk{Kind: "task", ID: g.ntask}
	}
}

// wrap puts `levels` sub-process wrappers around a randomly chosen block
func (g *blkGen) wrap(b *Blk, levels int) *Blk {
	var nodes []*Blk
	var walk func(x *Blk)
	walk = func(x *Blk) {
		if x.Kind != "skip" {
			nodes = append(nodes, x)
		}
		for _, k := range x.Kids {
			walk(k)
		}
	}
	c := b.Flatten() // deep copy
	walk(c)
	t := nodes[g.rng.Intn(len(nodes))]
	inner := *t
	w := &inner
	for i := 0; i < levels; i++ {
		w = &Blk{Kind: "sub", Kids: []*Blk{w}}
	}
	*t = *w
	return c
}

// ---- driver ----

type blkStep struct {
	task    int
	writes  [4]int // -1 = not written, 0/1 value
	pending []int  // observed pending requests after the answer (sorted)
}

type blkObs struct {
	first     []int // pending after start
	steps     []blkStep
	completed bool
	vars      [4]bool
	problem   string // a request that never came / an unexpected one / no completion
	log       []Ev
	landmarks int
}

func sortedCopy(l []int) []int { c := append([]int{}, l...); sort.Ints(c); return c }

func intsEq(a, b []int) bool {
	if len(a) != len(b) {
		return false
	}
	for i := range a {
		if a[i] != b[i] {
			return false
		}
	}
	return true
}

func pendingInts(in *Inst) []int {
	var out []int
	for _, n := range in.PendingNodes() {
		var i int
		fmt.Sscanf(n, "T%d", &i)
		out = append(out, i)
	}
	sort.Ints(out)
	return out
}

// waitPending waits until the observed pending set equals want (up to tmoStep), then a short settle to let
// any surplus request show up.
func waitPending(in *Inst, want []int) []int {
	deadline := time.Now().Add(tmoStep)
	for time.Now().Before(deadline) {
		if intsEq(pendingInts(in), want) {
			break
		}
		time.Sleep(200 * time.Microsecond)
	}
	time.Sleep(3 * time.Millisecond)
	return pendingInts(in)
}

// RunBlk drives one instance of the program: answers pending tasks in the order chosen by choose (index
// into the sorted observed pending list), writing variables as writesFor decides.
func RunBlk(b *Blk, env0 [4]bool, choose func(n int) int, writesFor func(task, nth int) [4]int, maxSteps int, opts ...bpmn.Option) blkObs {
	var o blkObs
	defs, err := ParseDefs(BlkProg(b).XML(""))
	must(err)
	vars := map[string]any{}
	env := make([]bool, 4)
	for i, v := range env0 {
		vars[fmt.Sprintf("v%d", i)] = v
		env[i] = v
	}
	in, err := StartInst(defs, InstOpt{Vars: vars, Opts: opts})
	must(err)
	defer in.Close()
	r := bstart(env, b)
	var want []int
	r.pending(&want)
	o.first = waitPending(in, sortedCopy(want))
	cur := o.first
	nth := map[int]int{}
	for len(cur) > 0 && len(o.steps) < maxSteps {
		t := cur[choose(len(cur))]
		nth[t]++
		w := writesFor(t, nth[t])
		res := map[string]any{}
		for i, x := range w {
			if x >= 0 {
				res[fmt.Sprintf("v%d", i)] = x == 1
				env[i] = x == 1
			}
		}
		if !in.Answer(fmt.Sprintf("T%d", t), time.Second, bpmn.DoWithResults(res)) {
			o.problem = fmt.Sprintf("pending task T%d could not be answered", t)
			break
		}
		r = r.answer(env, t)
		want = nil
		r.pending(&want)
		cur = waitPending(in, sortedCopy(want))
		o.steps = append(o.steps, blkStep{task: t, writes: w, pending: cur})
		if !intsEq(cur, sortedCopy(want)) {
			o.problem = fmt.Sprintf("after answering T%d: pending requests %v, token game expects %v", t, cur, sortedCopy(want))
			break
		}
	}
	if o.problem == "" && !intsEq(o.first, o.first) {
		o.problem = "unreachable"
	}
	if o.problem == "" && len(cur) == 0 {
		o.completed = in.WaitCease(tmoStep)
		if !o.completed {
			o.problem = "no task pending but the instance did not complete"
		}
	}
	time.Sleep(2 * time.Millisecond)
	for i := 0; i < 4; i++ {
		if v, ok := in.P.Locator().GetVariable(fmt.Sprintf("v%d", i)); ok {
			if bv, ok := v.(bool); ok {
				o.vars[i] = bv
			}
		}
	}
	o.log = in.Log()
	o.landmarks = countEv(o.log, "other", "*")
	return o
}

func (o *blkObs) CoqScript() string {
	var s []string
	for _, st := range o.steps {
		var ws []string
		for i, x := range st.writes {
			if x >= 0 {
				ws = append(ws, fmt.Sprintf("(%d,%s)", i, map[bool]string{true: "true", false: "false"}[x == 1]))
			}
		}
		s = append(s, fmt.Sprintf("(%d,[%s],%s)", st.task, strings.Join(ws, ";"), natList(st.pending)))
	}
	return "[" + strings.Join(s, ";") + "]"
}

func envCoq(e [4]bool) string {
	var s []string
	for _, v := range e {
		s = append(s, map[bool]string{true: "true", false: "false"}[v])
	}
	return "[" + strings.Join(s, ";") + "]"
}

// slowGen is an id generator that takes its time: every new flow is created a little later, which lets
// the goroutines that do not create flows (completion monitors, trackers) run ahead of the tokens.
type slowGen struct{ d time.Duration }

func (g slowGen) Snapshot() ([]byte, error) { return sharedGen.Snapshot() }
func (g slowGen) New() id.Id                { time.Sleep(g.d); return sharedGen.New() }
