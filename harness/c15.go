package main

import (
	"bytes"
	"encoding/xml"
	"fmt"
	"os"
	"path/filepath"
	"reflect"
	"sort"
	"strings"
	"time"

	"github.com/olive-io/bpmn/schema"
)

func init() { commands["c15"] = runC15 }

// ---- raw token tree of an XML text ----
type rawElem struct {
	prefix, local string
	attrs         [][3]string // prefix, local, value
	text          string
	kids          []*rawElem
}

func rawTree(data []byte) (*rawElem, error) {
	d := xml.NewDecoder(bytes.NewReader(data))
	var stack []*rawElem
	var root *rawElem
	for {
		tok, err := d.RawToken()
		if err != nil {
			break
		}
		switch t := tok.(type) {
		case xml.StartElement:
			e := &rawElem{prefix: t.Name.Space, local: t.Name.Local}
			for _, a := range t.Attr {
				e.attrs = append(e.attrs, [3]string{a.Name.Space, a.Name.Local, a.Value})
			}
			if len(stack) > 0 {
				p := stack[len(stack)-1]
				p.kids = append(p.kids, e)
			} else {
				root = e
			}
			stack = append(stack, e)
		case xml.EndElement:
			if len(stack) > 0 {
				stack[len(stack)-1].text = strings.TrimSpace(stack[len(stack)-1].text)
				stack = stack[:len(stack)-1]
			}
		case xml.CharData:
			if len(stack) > 0 {
				stack[len(stack)-1].text += string(t)
			}
		}
	}
	if root == nil {
		return nil, fmt.Errorf("no root element")
	}
	return root, nil
}

func coqS(s string) string { return "\"" + strings.ReplaceAll(s, "\"", "\"\"") + "\"%string" }

func (e *rawElem) coq(sb *strings.Builder) {
	name := func(p, l string) string {
		if p == "" {
			return "(None, " + coqS(l) + ")"
		}
		return "(Some " + coqS(p) + ", " + coqS(l) + ")"
	}
	sb.WriteString("(X " + name(e.prefix, e.local) + " [")
	for i, a := range e.attrs {
		if i > 0 {
			sb.WriteString(";")
		}
		sb.WriteString("(" + name(a[0], a[1]) + ", " + coqS(a[2]) + ")")
	}
	sb.WriteString("] " + coqS(e.text) + " [")
	for i, k := range e.kids {
		if i > 0 {
			sb.WriteString(";")
		}
		k.coq(sb)
	}
	sb.WriteString("])")
}

// ---- tolerant structural comparison of two definitions (whitespace-only text aside) ----
func c15Diff(path string, a, b reflect.Value, out *[]string) {
	if len(*out) > 5 {
		return
	}
	if a.Kind() != b.Kind() {
		*out = append(*out, fmt.Sprintf("%s: kind %v vs %v", path, a.Kind(), b.Kind()))
		return
	}
	switch a.Kind() {
	case reflect.Ptr, reflect.Interface:
		if a.IsNil() || b.IsNil() {
			// a nil text payload equals an all-whitespace one
			if a.IsNil() != b.IsNil() {
				nz := a
				if a.IsNil() {
					nz = b
				}
				if nz.Kind() == reflect.Ptr && nz.Elem().Kind() == reflect.String && strings.TrimSpace(nz.Elem().String()) == "" {
					return
				}
				*out = append(*out, fmt.Sprintf("%s: nil %v vs %v", path, a.IsNil(), b.IsNil()))
			}
			return
		}
		if a.Kind() == reflect.Interface && a.Elem().Type() != b.Elem().Type() {
			*out = append(*out, fmt.Sprintf("%s: dynamic type %v vs %v", path, a.Elem().Type(), b.Elem().Type()))
			return
		}
		c15Diff(path, a.Elem(), b.Elem(), out)
	case reflect.Struct:
		for i := 0; i < a.NumField(); i++ {
			c15Diff(path+"."+a.Type().Field(i).Name, a.Field(i), b.Field(i), out)
		}
	case reflect.Slice:
		if a.Len() != b.Len() {
			*out = append(*out, fmt.Sprintf("%s: len %d vs %d", path, a.Len(), b.Len()))
			return
		}
		for i := 0; i < a.Len(); i++ {
			c15Diff(fmt.Sprintf("%s[%d]", path, i), a.Index(i), b.Index(i), out)
		}
	case reflect.String:
		if strings.TrimSpace(a.String()) != strings.TrimSpace(b.String()) {
			*out = append(*out, fmt.Sprintf("%s: %q vs %q", path, a.String(), b.String()))
		}
	case reflect.Map:
		if a.Len() != b.Len() {
			*out = append(*out, fmt.Sprintf("%s: map len %d vs %d", path, a.Len(), b.Len()))
		}
	default:
		if a.CanInterface() {
			if !reflect.DeepEqual(a.Interface(), b.Interface()) {
				*out = append(*out, fmt.Sprintf("%s: %v vs %v", path, a.Interface(), b.Interface()))
			}
		} else if fmt.Sprint(a) != fmt.Sprint(b) {
			*out = append(*out, fmt.Sprintf("%s: %v vs %v", path, a, b))
		}
	}
}

func c15Ids(v reflect.Value, out *[]string, depth int) {
	if depth > 40 {
		return
	}
	switch v.Kind() {
	case reflect.Ptr, reflect.Interface:
		if !v.IsNil() {
			c15Ids(v.Elem(), out, depth+1)
		}
	case reflect.Struct:
		for i := 0; i < v.NumField(); i++ {
			f := v.Type().Field(i)
			// ids of BPMN base elements (the root tDefinitions is not a base element: it is the receiver of FindBy)
			if f.Name == "IdField" && v.Type().Name() == "BaseElement" && v.Field(i).Kind() == reflect.Ptr && !v.Field(i).IsNil() {
				*out = append(*out, v.Field(i).Elem().String())
			}
			c15Ids(v.Field(i), out, depth+1)
		}
	case reflect.Slice:
		for i := 0; i < v.Len(); i++ {
			c15Ids(v.Index(i), out, depth+1)
		}
	}
}

type c15Doc struct {
	name string
	text string
	run  func(defs *schema.Definitions) string // engine outcome projection ("" = not run)
}

// linear driver: answer every task request in arrival order; outcome = request order + completion
func c15RunAll(maxTasks int) func(defs *schema.Definitions) string {
	return func(defs *schema.Definitions) string {
		in, err := StartInst(defs, InstOpt{Vars: map[string]any{"c0": true, "c1": false, "c2": true, "c3": false, "again": false}})
		if err != nil {
			return "error:" + err.Error()
		}
		defer in.Close()
		for i := 0; i < maxTasks; i++ {
			ok := in.WaitUntil(300*time.Millisecond, func(l []Ev) bool { return countEv(l, "task", "*") > i || countEv(l, "cease", "*") > 0 })
			if !ok || countEv(in.Log(), "task", "*") <= i {
				break
			}
			var node string
			c := 0
			for _, e := range in.Log() {
				if e.K == "task" {
					if c == i {
						node = e.N
					}
					c++
				}
			}
			in.Answer(node, tmoStep)
		}
		done := in.WaitUntil(300*time.Millisecond, func(l []Ev) bool { return countEv(l, "cease", "*") > 0 })
		tasks := []string{}
		errs := 0
		for _, e := range in.Log() {
			if e.K == "task" {
				tasks = append(tasks, e.N)
			}
			if e.K == "error" {
				errs++
			}
		}
		sort.Strings(tasks) // concurrent branches: compare as multiset
		return fmt.Sprintf("tasks=%v errors=%d completed=%v", tasks, errs, done)
	}
}

func c15Docs() []c15Doc {
	var docs []c15Doc
	// gateways with formal conditions in both languages, defaults at several positions
	for _, lang := range []string{"", "xpath"} {
		docs = append(docs, c15Doc{"xor-" + lang + "-default1", c04Prog([]int{0, 2, 1, 1}, 1, 1, lang).XML(""), c15RunAll(6)})
		docs = append(docs, c15Doc{"xor-" + lang + "-nodefault", c04Prog([]int{0, 1}, -1, 2, lang).XML(""), c15RunAll(6)})
	}
	docs = append(docs, c15Doc{"parallel-loop", c03Prog(2, 3).XML(""), c15RunAll(12)})
	{ // expression text padded with white space that XML does not know (ideographic space, no-break space)
		p := &Prog{}
		p.Node("start", "start")
		x := p.Node("xor", "S")
		p.Node("task", "B0")
		p.Node("task", "B1")
		p.Node("end", "end")
		p.Flow("start", "S", "")
		p.Flow("S", "B0", "\u3000c0\u00a0")
		x.Default = p.Flow("S", "B1", "").ID
		p.Flow("B0", "end", "")
		p.Flow("B1", "end", "")
		docs = append(docs, c15Doc{"unicode-space-padded-expression", p.XML(""), nil})
	}
	// informal condition, language attribute, all node kinds
	{
		p := &Prog{}
		p.Node("start", "start")
		p.Node("usertask", "u1")
		p.Node("plaintask", "t1")
		st := p.Node("task", "s1")
		st.Results = []string{"r1"}
		st.Inner = `<bpmn:extensionElements><olive:taskDefinition type="service" timeout="30s" retries="2"/><olive:taskHeaders><olive:header name="h" value="v" type="string"/></olive:taskHeaders><olive:properties><olive:property name="a" value="1" type="integer"/><olive:property name="b" value="{&#34;k&#34;: 1}" type="object"/></olive:properties></bpmn:extensionElements>`
		p.Node("incl", "i1")
		p.Node("incl", "i2")
		p.Node("task", "a")
		p.Node("task", "b")
		c := p.Node("catch", "c1")
		c.Inner = `<bpmn:signalEventDefinition id="sd1" signalRef="sig1"/>`
		th := p.Node("throw", "th1")
		th.Inner = `<bpmn:messageEventDefinition id="md1" messageRef="msg1"/>`
		sub := p.Node("sub", "sp1")
		sub.Sub = &Prog{}
		sub.Sub.Node("start", "sstart")
		sub.Sub.Node("task", "inner")
		sub.Sub.Node("end", "send")
		sub.Sub.Flow("sstart", "inner", "")
		sub.Sub.Flow("inner", "send", "")
		be := p.Node("boundary", "b1")
		be.Attrs = `attachedToRef="u1" cancelActivity="false"`
		be.Inner = `<bpmn:timerEventDefinition id="td1"><bpmn:timeCycle xsi:type="bpmn:tFormalExpression">R3/PT10S</bpmn:timeCycle></bpmn:timerEventDefinition>`
		p.Node("task", "bt")
		p.Node("ebg", "eg")
		c2 := p.Node("catch", "c2")
		c2.Inner = `<bpmn:conditionalEventDefinition id="cd1"><bpmn:condition xsi:type="bpmn:tFormalExpression">  x &gt; 1 </bpmn:condition></bpmn:conditionalEventDefinition>`
		c3 := p.Node("catch", "c3")
		c3.Inner = `<bpmn:timerEventDefinition id="td2"><bpmn:timeDate xsi:type="bpmn:tFormalExpression">2030-01-01T00:00:00Z</bpmn:timeDate></bpmn:timerEventDefinition>`
		p.Node("end", "end")
		p.Node("end", "end2")
		p.Flow("start", "u1", "")
		p.Flow("u1", "t1", "")
		p.Flow("t1", "s1", "")
		p.Flow("s1", "i1", "")
		f1 := p.Flow("i1", "a", "always true, informal")
		f1.Informal = true
		p.Flow("i1", "b", "c1")
		p.Flow("a", "i2", "")
		p.Flow("b", "i2", "")
		p.Flow("i2", "c1", "")
		p.Flow("c1", "th1", "")
		p.Flow("th1", "sp1", "")
		p.Flow("sp1", "eg", "")
		p.Flow("eg", "c2", "")
		p.Flow("eg", "c3", "")
		p.Flow("c2", "end", "")
		p.Flow("c3", "end", "")
		p.Flow("b1", "bt", "")
		p.Flow("bt", "end2", "")
		extra := `<bpmn:signal id="sig1" name="sig1"/><bpmn:message id="msg1" name="msg1"/><bpmn:itemDefinition id="item1" structureRef="xs:string"/>`
		docs = append(docs, c15Doc{"all-kinds", p.XML(extra), nil})
	}
	// formal expressions that carry further attributes, the type attribute first, in the middle and last
	{
		cond := func(attrs, text string) string {
			return `<bpmn:conditionExpression ` + attrs + `>` + text + `</bpmn:conditionExpression>`
		}
		const ty = `xsi:type="bpmn:tFormalExpression"`
		docs = append(docs, c15Doc{"formal-expressions-with-attributes", defsHead +
			`<bpmn:process id="p1" isExecutable="true"><bpmn:startEvent id="start"><bpmn:outgoing>f0</bpmn:outgoing></bpmn:startEvent>` +
			`<bpmn:exclusiveGateway id="S" default="f4"><bpmn:incoming>f0</bpmn:incoming><bpmn:outgoing>f1</bpmn:outgoing><bpmn:outgoing>f2</bpmn:outgoing><bpmn:outgoing>f3</bpmn:outgoing><bpmn:outgoing>f4</bpmn:outgoing></bpmn:exclusiveGateway>` +
			`<bpmn:task id="B1"><bpmn:incoming>f1</bpmn:incoming><bpmn:outgoing>g1</bpmn:outgoing></bpmn:task><bpmn:task id="B2"><bpmn:incoming>f2</bpmn:incoming><bpmn:outgoing>g2</bpmn:outgoing></bpmn:task>` +
			`<bpmn:task id="B3"><bpmn:incoming>f3</bpmn:incoming><bpmn:outgoing>g3</bpmn:outgoing></bpmn:task><bpmn:task id="B4"><bpmn:incoming>f4</bpmn:incoming><bpmn:outgoing>g4</bpmn:outgoing></bpmn:task>` +
			`<bpmn:endEvent id="end"><bpmn:incoming>g1</bpmn:incoming><bpmn:incoming>g2</bpmn:incoming><bpmn:incoming>g3</bpmn:incoming><bpmn:incoming>g4</bpmn:incoming></bpmn:endEvent>` +
			`<bpmn:sequenceFlow id="f0" sourceRef="start" targetRef="S"/>` +
			`<bpmn:sequenceFlow id="f1" sourceRef="S" targetRef="B1">` + cond(`id="ce1" language="`+xpathLang+`" `+ty, "false()") + `</bpmn:sequenceFlow>` +
			`<bpmn:sequenceFlow id="f2" sourceRef="S" targetRef="B2">` + cond(`id="ce2" `+ty+` evaluatesToTypeRef="item1"`, "1 == 2") + `</bpmn:sequenceFlow>` +
			`<bpmn:sequenceFlow id="f3" sourceRef="S" targetRef="B3">` + cond(ty+` id="ce3" language="`+xpathLang+`"`, "true()") + `</bpmn:sequenceFlow>` +
			`<bpmn:sequenceFlow id="f4" sourceRef="S" targetRef="B4"/>` +
			`<bpmn:sequenceFlow id="g1" sourceRef="B1" targetRef="end"/><bpmn:sequenceFlow id="g2" sourceRef="B2" targetRef="end"/><bpmn:sequenceFlow id="g3" sourceRef="B3" targetRef="end"/><bpmn:sequenceFlow id="g4" sourceRef="B4" targetRef="end"/>` +
			`</bpmn:process><bpmn:itemDefinition id="item1" structureRef="xs:boolean"/></bpmn:definitions>`, c15RunAll(4)})
	}
	// collaboration with two processes, data object with olive body
	docs = append(docs, c15Doc{"collaboration", defsHead +
		`<bpmn:collaboration id="col"><bpmn:participant id="pa" name="A" processRef="p1"/><bpmn:participant id="pb" processRef="p2"/><bpmn:messageFlow id="mf" sourceRef="t1" targetRef="s2"/></bpmn:collaboration>` +
		`<bpmn:process id="p1" isExecutable="true"><bpmn:startEvent id="s1"><bpmn:outgoing>f1</bpmn:outgoing></bpmn:startEvent><bpmn:intermediateThrowEvent id="t1"><bpmn:incoming>f1</bpmn:incoming><bpmn:outgoing>f2</bpmn:outgoing><bpmn:messageEventDefinition id="m1"/></bpmn:intermediateThrowEvent><bpmn:endEvent id="e1"><bpmn:incoming>f2</bpmn:incoming></bpmn:endEvent><bpmn:sequenceFlow id="f1" sourceRef="s1" targetRef="t1"/><bpmn:sequenceFlow id="f2" sourceRef="t1" targetRef="e1"/>` +
		`<bpmn:dataObject id="do1" name="d"><bpmn:extensionElements><olive:dataObjectBody>{"a": 1, "sep": "&#xD;&#xA;", "cr": "x&#xD;y", "lt": "&lt;&amp;&gt;]]&gt;"}</olive:dataObjectBody></bpmn:extensionElements></bpmn:dataObject><bpmn:dataObjectReference id="dor1" dataObjectRef="do1"/></bpmn:process>` +
		`<bpmn:process id="p2" isExecutable="false"><bpmn:startEvent id="s2"><bpmn:outgoing>g1</bpmn:outgoing><bpmn:messageEventDefinition id="m2"/></bpmn:startEvent><bpmn:endEvent id="e2"><bpmn:incoming>g1</bpmn:incoming></bpmn:endEvent><bpmn:sequenceFlow id="g1" sourceRef="s2" targetRef="e2"/></bpmn:process></bpmn:definitions>`, nil})
	// bundled files
	for _, dir := range []string{"/repo/testdata", "/repo/examples"} {
		filepath.Walk(dir, func(path string, info os.FileInfo, err error) error {
			if err == nil && !info.IsDir() && strings.HasSuffix(path, ".bpmn") {
				if data, err := os.ReadFile(path); err == nil {
					docs = append(docs, c15Doc{"file:" + strings.TrimPrefix(path, "/repo/"), string(data), nil})
				}
			}
			return nil
		})
	}
	return docs
}

func runC15(env *Env) {
	rep := &Report{Property: "C15",
		Rule: "documents: generated definitions covering every supported flow-node kind (tasks, 4 gateway kinds with defaults at several positions, formal conditions in two languages, informal conditions, timer/signal/message/conditional definitions, boundary events, sub-process, olive extensions, data objects, collaboration) plus every bundled .bpmn file; each is parsed, marshalled, re-parsed, re-marshalled; non-trivial = contains an expression or an extension; distinct by document"}
	var items []string
	type kept struct {
		name string
		d2   *schema.Definitions
		x2   string
	}
	var keep []kept
	docs := c15Docs()
	// a document in another expression language, parsed last: earlier results must not change
	docs = append(docs, c15Doc{"xpath-definitions", strings.Replace(c04Prog([]int{1, 0}, -1, 1, "").XML(""), "https://github.com/expr-lang/expr", "http://www.w3.org/1999/XPath", 1), nil})
	for _, doc := range docs {
		cs := "document " + doc.name
		env.Current(cs)
		rep.Evaluations++
		d1, err := schema.Parse([]byte(doc.text))
		if err != nil {
			rep.Violate("C15-parse", cs, "input does not parse: "+err.Error())
			continue
		}
		pristine, _ := schema.Parse([]byte(doc.text))
		textsBefore := c15Texts(reflect.ValueOf(d1))
		x1, err := xml.Marshal(d1)
		if err != nil {
			rep.Violate("C15-marshal", cs, err.Error())
			continue
		}
		if strings.Contains(doc.text, "Expression") || strings.Contains(doc.text, "extensionElements") {
			rep.Nontrivial++
		}
		rep.Count(map[bool]string{true: "bundled_files", false: "generated"}[strings.HasPrefix(doc.name, "file:")])
		var diffs []string
		// serialising does not alter the model (whitespace aside)
		c15Diff("", reflect.ValueOf(pristine).Elem(), reflect.ValueOf(d1).Elem(), &diffs)
		if len(diffs) > 0 {
			rep.Violate("C15-marshal-mutates", cs, "marshalling changed the model: "+strings.Join(diffs, "; "))
		}
		d2, err := schema.Parse(x1)
		if err != nil {
			rep.Violate("C15-roundtrip", cs, "output does not re-parse: "+err.Error())
			continue
		}
		diffs = nil
		c15Diff("", reflect.ValueOf(d1).Elem(), reflect.ValueOf(d2).Elem(), &diffs)
		if len(diffs) > 0 {
			rep.Violate("C15-roundtrip", cs, "re-parsed model differs: "+strings.Join(diffs, "; "))
		}
		// what the engine reads (TextPayload of expressions, scripts, timers ...) is the same before serialising,
		// after serialising (same model), and in the re-parsed model
		if a, b, c := textsBefore, c15Texts(reflect.ValueOf(d1)), c15Texts(reflect.ValueOf(d2)); !reflect.DeepEqual(a, b) || !reflect.DeepEqual(a, c) {
			rep.Violate("C15-roundtrip", cs, fmt.Sprintf("text payloads differ: before serialising %q, after %q, re-parsed %q", a, b, c))
		}
		x2, _ := xml.Marshal(d2)
		keep = append(keep, kept{doc.name, d2, string(x2)})
		if string(x1) != string(x2) {
			rep.Violate("C15-roundtrip", cs, "second serialisation differs from the first")
		}
		// parse results of the same bytes are independent: a model that its owner edits afterwards (process and flow
		// node names, a condition's text) does not show in a later parse of those bytes
		{
			edited, _ := schema.Parse(x1)
			c15Scribble(reflect.ValueOf(edited).Elem(), 0)
			again, err := schema.Parse(x1)
			if err != nil {
				rep.Violate("C15-shared-state", cs, "the serialised document no longer parses after an earlier parse result of it was edited: "+err.Error())
			} else if xa, _ := xml.Marshal(again); string(xa) != string(x2) {
				rep.Violate("C15-shared-state", cs, "a parse of the same bytes made after an earlier parse result was edited differs from one made before (first difference at byte "+fmt.Sprint(firstDiff(string(xa), string(x2)))+")")
			}
		}
		// every element with an id is retrievable by that id
		var ids []string
		c15Ids(reflect.ValueOf(d2).Elem(), &ids, 0)
		for _, id := range ids {
			if _, found := d2.FindBy(schema.ExactId(id)); !found {
				rep.Violate("C15-findby", cs, "element with id "+id+" not found by FindBy(ExactId)")
				break
			}
		}
		if len(ids) == 0 {
			rep.Violate("C15-findby", cs, "no ids found in the document")
		}
		// engine behaviour on the original and on the re-parsed model
		if doc.run != nil {
			o1 := doc.run(pristine)
			o2 := doc.run(d2)
			if o1 != o2 {
				rep.Violate("C15-behaviour", cs, fmt.Sprintf("engine outcome differs: original %s, re-parsed %s", o1, o2))
			}
			rep.Count("engine_compared")
		}
		if tr, err := rawTree(x1); err == nil {
			var sb strings.Builder
			tr.coq(&sb)
			items = append(items, sb.String())
		} else {
			rep.Violate("C15-roundtrip", cs, "output not tokenizable: "+err.Error())
		}
		if len(rep.Samples) < 4 {
			rep.Sample(fmt.Sprintf("%s: %d bytes in, %d bytes out, %d ids", doc.name, len(doc.text), len(x1), len(ids)))
		}
	}
	// models obtained earlier are independent of later parses (no shared state between documents)
	for _, k := range keep {
		x3, _ := xml.Marshal(k.d2)
		if string(x3) != k.x2 {
			rep.Violate("C15-shared-state", "document "+k.name+" re-serialised after all other documents were parsed",
				"the re-parsed model changed when other documents were parsed later (first difference at byte "+fmt.Sprint(firstDiff(string(x3), k.x2))+")")
		}
	}
	rep.Exhaustive = true
	env.WriteCases(rep, "", "Corr.C15corr", "xml", items, "c15_mismatches")
	env.WriteReport(rep)
}

func firstDiff(a, b string) int {
	for i := 0; i < len(a) && i < len(b); i++ {
		if a[i] != b[i] {
			return i
		}
	}
	return len(a)
}

// c15Texts collects, in structure order, what every TextPayload() accessor of the model returns
func c15Texts(v reflect.Value) (out []string) {
	seen := map[uintptr]bool{}
	var walk func(v reflect.Value, depth int)
	walk = func(v reflect.Value, depth int) {
		if depth > 40 || !v.IsValid() {
			return
		}
		switch v.Kind() {
		case reflect.Ptr:
			if v.IsNil() {
				return
			}
			if seen[v.Pointer()] {
				return
			}
			seen[v.Pointer()] = true
			if m := v.MethodByName("TextPayload"); m.IsValid() && m.Type().NumIn() == 0 && m.Type().NumOut() == 1 {
				r := m.Call(nil)[0]
				if r.Kind() == reflect.Ptr && !r.IsNil() && r.Elem().Kind() == reflect.String {
					out = append(out, r.Elem().String())
				}
			}
			walk(v.Elem(), depth+1)
		case reflect.Interface:
			if !v.IsNil() {
				walk(v.Elem(), depth+1)
			}
		case reflect.Struct:
			for i := 0; i < v.NumField(); i++ {
				f := v.Field(i)
				// character data kept in a plain string field (olive:dataObjectBody)
				if f.Kind() == reflect.String && v.Type().Field(i).Name == "Body" {
					out = append(out, "body:"+f.String())
				}
				if f.CanAddr() && f.Kind() == reflect.Struct {
					walk(f.Addr(), depth+1)
				} else {
					walk(f, depth+1)
				}
			}
		case reflect.Slice:
			for i := 0; i < v.Len(); i++ {
				e := v.Index(i)
				if e.CanAddr() && e.Kind() == reflect.Struct {
					walk(e.Addr(), depth+1)
				} else {
					walk(e, depth+1)
				}
			}
		}
	}
	walk(v, 0)
	return
}

// c15Scribble edits a parsed model in place: every settable string reached through pointers, slices and structs below
// the top level gets a mark appended (names, ids of nested elements, expression texts ...)
func c15Scribble(v reflect.Value, depth int) {
	if depth > 12 {
		return
	}
	switch v.Kind() {
	case reflect.Ptr, reflect.Interface:
		if !v.IsNil() {
			c15Scribble(v.Elem(), depth+1)
		}
	case reflect.Struct:
		for i := 0; i < v.NumField(); i++ {
			c15Scribble(v.Field(i), depth+1)
		}
	case reflect.Slice:
		for i := 0; i < v.Len(); i++ {
			c15Scribble(v.Index(i), depth+1)
		}
	case reflect.String:
		if v.CanSet() && depth >= 2 {
			v.SetString(v.String() + "~edited")
		}
	}
}
