package main

import (
	"fmt"
	"go/ast"
	"go/token"
	"strings"
)

// Protocol facts (harness/protocol.go): a few decisions of the code that the models carry as variant flags, read off
// the current sources on every run (name-agnostic where possible). A theorem is stated about the variant the sources
// show, so that a change of the decision breaks the proof obligation.
//
//	src_active_before_arm     activity.go harness.run: the store that opens the harness for events (atomic store to a
//	                          field named active) comes before the call that arms the boundary events (x.arm(...))
//	src_termchan_capacity     gateway_event_based.go eventBasedGateway.run: smallest capacity of the chan bool
//	                          channels made there (0 = unbuffered)
//	src_termchan_table_kept   ... no map-typed local of run is assigned as a whole inside a function literal
//	                          (the table of termination channels is not replaced once the action is handed out)
//	src_determination_is_cas  ... the action transformer's decision is one atomic CompareAndSwap
//	src_subprocess_registers  subprocess.go newSubProcess: the sub-process registers as an event consumer (a call of
//	                          RegisterEventConsumer) while it is built
//	src_determination_flag_per_activation
//	                          gateway_event_based.go: the variable the compare-and-swap decides on is declared inside the
//	                          case that handles one token's arrival (one flag per activation), not a field of the node
//	                          or a variable that outlives the case
//	src_join_counter_bits     gateway_parallel.go: narrowest integer field of struct parallelGateway (int, uint = 64)
//	src_join_counter_resets   ... a method of parallelGateway assigns 0 to such a field (the arrival counter starts
//	                          again when the gateway fires, it does not run on)
//	src_token_counter_never_set_back
//	                          activity.go harness.run: the counter the tokens inside an activity are numbered from (a field
//	                          incremented with ++) is never assigned to
//	src_monitor_accumulator_is_local
//	                          subprocess.go subProcess.ceaseFlowMonitor: the list of start events that have fired, which
//	                          the monitor hands to startEventFired, is a variable declared inside the monitor's own
//	                          function literal (made afresh for every activation), not a field that outlives it
//	src_probing_key_is_the_id gateway_exclusive.go: the table in which the gateway remembers a token between its two
//	                          requests (the map-typed field of struct exclusiveGateway) is keyed by the id type itself
//	                          (id.Id), and every lookup indexes it with a flow's id as it stands (x.flowId, x.Id())
//	src_flows_in_reference_order
//	                          flow_wiring.go sequenceFlows: the i-th resolved flow is stored at index i of the result, i
//	                          being the index of the reference it was resolved from (no append in another order)
//	src_handler_read_only_on_error
//	                          flow.go: every receive from an answer's handler channel (a field named handler) lies inside
//	                          an if statement whose condition tests that the answer's error is not nil
//	src_unsubscribe_drains    pkg/tracing/tracer.go tracer.Unsubscribe: every select in which the caller offers its request or
//	                          waits for the acknowledgement also has a clause that receives from the caller's own channel
//	                          (the subscriber keeps emptying its buffer while it leaves)
//	src_push_waits_for_the_subscriber
//	                          pkg/tracing/tracer.go tracer.run: every send to a subscriber (the value variable of a range over
//	                          the subscribers) is a plain send statement standing directly in the body of that range: not a
//	                          clause of a select (which could give up), not in a goroutine or a nested block
//	src_subprocess_shares_the_locator
//	                          subprocess.go newSubProcess: every variable with "locator" in its name that is defined there is
//	                          defined as the field named locator of something else (the parent wiring's), there is at least
//	                          one, and nothing there makes a locator (no call of a function whose name contains
//	                          NewFlowDataLocator or Clone)
//	src_subprocess_forwards_directly
//	                          subprocess.go subProcess.ConsumeEvent: no send statement, no select and no go statement, and a
//	                          call of something named ForwardEvent (the event goes on to the consumers inside on the
//	                          goroutine of whoever delivers it; nothing is queued for the sub-process's own run loop)
//	src_token_continues_on_the_first_flow_that_flows
//	                          flow.go flow.Start: the loop over the outgoing sequence flows of a node (a range whose body calls
//	                          handleSequenceFlow) starts with an if statement whose condition is the negation of a plain
//	                          variable that is set to true inside that if (the arriving token takes the first flow that
//	                          flows), not a comparison of the loop index
//	src_partition_comes_from_the_library
//	                          pkg/id/sno.go: no composite literal of a type named GeneratorSnapshot and no assignment to a field
//	                          named Partition anywhere in the file, and a call of sno.NewGenerator (the engine never picks
//	                          a partition: a snapshot is either nil or decoded from the caller's bytes)
//	src_answer_slice_is_fresh gateway_exclusive.go exclusiveGateway.run: every slice that is appended to there is a variable
//	                          declared inside the case clause in which it is appended to (made anew for every message)
//	src_wake_is_direct        process_set.go: struct ProcessSet has no map-typed field of channels (no table of listening catch
//	                          events) and some method of ProcessSet other than tracerProcess calls ConsumeEvent (the throw
//	                          hands the events to the process itself)
//	src_setvariable_replaces  pkg/data/impl.go FlowDataLocator.SetVariable: a stored value is never written through
//	                          (no assignment to a field of something that was read out of the variables table); the
//	                          name is pointed at another value instead
type protoFacts struct {
	SubProcessRegisters bool
	ActiveBeforeArm     bool
	TermChanCapacity    int
	TermChanTableKept   bool
	DeterminationIsCAS  bool
	FlagPerActivation   bool
	JoinCounterBits     int
	JoinCounterResets   bool
	SetVariableReplaces bool
	CounterNeverSetBack bool
	AccumulatorIsLocal  bool
	ProbingKeyIsTheId   bool
	FlowsInRefOrder     bool
	HandlerOnlyOnError  bool
	UnsubscribeDrains   bool
	AnswerSliceIsFresh  bool
	WakeIsDirect        bool
	PushWaits           bool
	SubSharesLocator    bool
	SubForwardsDirectly bool
	FirstThatFlows      bool
	PartitionFromLib    bool
}

func findMethod(f *ast.File, recv, name string) *ast.FuncDecl {
	if f == nil {
		return nil
	}
	for _, d := range f.Decls {
		fd, ok := d.(*ast.FuncDecl)
		if !ok || fd.Name.Name != name || fd.Recv == nil || len(fd.Recv.List) == 0 {
			continue
		}
		t := fd.Recv.List[0].Type
		if s, ok := t.(*ast.StarExpr); ok {
			t = s.X
		}
		if id, ok := t.(*ast.Ident); ok && id.Name == recv {
			return fd
		}
	}
	return nil
}

func protocolFacts(c *factsCtx) (pf protoFacts) {
	// --- activity.go
	if run := findMethod(c.parse("activity.go"), "harness", "run"); run == nil {
		c.fail("protocol facts: harness.run not found in activity.go")
	} else {
		var storePos, armPos token.Pos
		ast.Inspect(run.Body, func(n ast.Node) bool {
			call, ok := n.(*ast.CallExpr)
			if !ok {
				return true
			}
			se, ok := call.Fun.(*ast.SelectorExpr)
			if !ok {
				return true
			}
			// atomic.StoreInt32(&x.active, 1) / x.active.Store(...)
			isStore := false
			if strings.HasPrefix(se.Sel.Name, "Store") {
				txt := nodeText(c.fset, call)
				if strings.Contains(txt, ".active") && !strings.Contains(txt, ", 0)") && !strings.Contains(txt, "(false)") && !strings.Contains(txt, "(0)") {
					isStore = true
				}
			}
			if isStore && storePos == token.NoPos {
				storePos = call.Pos()
			}
			if se.Sel.Name == "arm" && armPos == token.NoPos {
				armPos = call.Pos()
			}
			return true
		})
		if storePos == token.NoPos || armPos == token.NoPos {
			c.fail("protocol facts: harness.run: the store to .active (%v) or the call of arm (%v) was not found", storePos != token.NoPos, armPos != token.NoPos)
		}
		pf.ActiveBeforeArm = storePos != token.NoPos && armPos != token.NoPos && storePos < armPos
	}
	// --- subprocess.go
	if f := c.parse("subprocess.go"); f != nil {
		found := false
		for _, d := range f.Decls {
			fd, ok := d.(*ast.FuncDecl)
			if !ok || fd.Name.Name != "newSubProcess" || fd.Body == nil {
				continue
			}
			found = true
			defs, bad := 0, 0
			ast.Inspect(fd.Body, func(n ast.Node) bool {
				if call, ok := n.(*ast.CallExpr); ok {
					if se, ok := call.Fun.(*ast.SelectorExpr); ok && se.Sel.Name == "RegisterEventConsumer" {
						pf.SubProcessRegisters = true
					}
					if fn := nodeText(c.fset, call.Fun); strings.Contains(fn, "NewFlowDataLocator") || strings.Contains(fn, "Clone") {
						bad++
					}
				}
				if as, ok := n.(*ast.AssignStmt); ok && len(as.Lhs) == len(as.Rhs) {
					for i, l := range as.Lhs {
						if id, ok := l.(*ast.Ident); ok && strings.Contains(strings.ToLower(id.Name), "locator") {
							if se, ok := as.Rhs[i].(*ast.SelectorExpr); ok && se.Sel.Name == "locator" {
								defs++
							} else {
								bad++
							}
						}
					}
				}
				if vs, ok := n.(*ast.ValueSpec); ok && len(vs.Names) == len(vs.Values) {
					for i, id := range vs.Names {
						if strings.Contains(strings.ToLower(id.Name), "locator") {
							if se, ok := vs.Values[i].(*ast.SelectorExpr); ok && se.Sel.Name == "locator" {
								defs++
							} else {
								bad++
							}
						}
					}
				}
				return true
			})
			pf.SubSharesLocator = defs > 0 && bad == 0
		}
		if !found {
			c.fail("protocol facts: newSubProcess not found in subprocess.go")
		}
	}
	// --- subprocess.go: what a sub-process does with an event
	if ce := findMethod(c.parse("subprocess.go"), "subProcess", "ConsumeEvent"); ce == nil || ce.Body == nil {
		c.fail("protocol facts: subProcess.ConsumeEvent not found in subprocess.go")
	} else {
		queues, forwards := false, false
		ast.Inspect(ce.Body, func(n ast.Node) bool {
			switch x := n.(type) {
			case *ast.SendStmt, *ast.SelectStmt, *ast.GoStmt:
				queues = true
			case *ast.CallExpr:
				if strings.Contains(nodeText(c.fset, x.Fun), "ForwardEvent") {
					forwards = true
				}
			}
			return true
		})
		pf.SubForwardsDirectly = forwards && !queues
	}
	// --- flow.go: which flow the arriving token takes
	if st := findMethod(c.parse("flow.go"), "flow", "Start"); st == nil || st.Body == nil {
		c.fail("protocol facts: flow.Start not found in flow.go")
	} else {
		loops, good := 0, 0
		ast.Inspect(st.Body, func(n ast.Node) bool {
			rg, ok := n.(*ast.RangeStmt)
			if !ok || !strings.Contains(nodeText(c.fset, rg.Body), "handleSequenceFlow(") {
				return true
			}
			loops++
			if len(rg.Body.List) == 0 {
				return true
			}
			ifs, ok := rg.Body.List[0].(*ast.IfStmt)
			if !ok {
				return true
			}
			un, ok := ifs.Cond.(*ast.UnaryExpr)
			if !ok || un.Op != token.NOT {
				return true
			}
			flag, ok := un.X.(*ast.Ident)
			if !ok {
				return true
			}
			set := false
			ast.Inspect(ifs.Body, func(m ast.Node) bool {
				if as, ok := m.(*ast.AssignStmt); ok && len(as.Lhs) == 1 && len(as.Rhs) == 1 {
					if l, ok := as.Lhs[0].(*ast.Ident); ok && l.Name == flag.Name {
						if r, ok := as.Rhs[0].(*ast.Ident); ok && r.Name == "true" {
							set = true
						}
					}
				}
				return true
			})
			if set {
				good++
			}
			return true
		})
		if loops == 0 {
			c.fail("protocol facts: flow.Start has no loop over the outgoing flows that calls handleSequenceFlow")
		}
		pf.FirstThatFlows = loops > 0 && good == loops
	}
	// --- pkg/id/sno.go: where a new generator's partition comes from
	if f := c.parse("pkg/id/sno.go"); f == nil {
		c.fail("protocol facts: pkg/id/sno.go not found")
	} else {
		picks, makes := false, false
		ast.Inspect(f, func(n ast.Node) bool {
			switch x := n.(type) {
			case *ast.CompositeLit:
				if x.Type != nil && strings.Contains(nodeText(c.fset, x.Type), "GeneratorSnapshot") {
					picks = true
				}
			case *ast.AssignStmt:
				for _, l := range x.Lhs {
					if se, ok := l.(*ast.SelectorExpr); ok && se.Sel.Name == "Partition" {
						picks = true
					}
				}
			case *ast.CallExpr:
				if strings.HasSuffix(nodeText(c.fset, x.Fun), "sno.NewGenerator") {
					makes = true
				}
			}
			return true
		})
		if !makes {
			c.fail("protocol facts: pkg/id/sno.go does not call sno.NewGenerator")
		}
		pf.PartitionFromLib = makes && !picks
	}
	// --- gateway_event_based.go
	if run := findMethod(c.parse("gateway_event_based.go"), "eventBasedGateway", "run"); run == nil {
		c.fail("protocol facts: eventBasedGateway.run not found")
	} else {
		pf.TermChanCapacity = -1
		mapLocals := map[*ast.Object]bool{}
		ast.Inspect(run.Body, func(n ast.Node) bool {
			switch x := n.(type) {
			case *ast.CallExpr:
				if id, ok := x.Fun.(*ast.Ident); ok && id.Name == "make" && len(x.Args) >= 1 {
					if ch, ok := x.Args[0].(*ast.ChanType); ok && nodeText(c.fset, ch.Value) == "bool" {
						capv := 0
						if len(x.Args) >= 2 {
							if lit, ok := x.Args[1].(*ast.BasicLit); ok {
								fmt.Sscan(lit.Value, &capv)
							} else {
								capv = 1 // a computed capacity: taken as buffered
							}
						}
						if pf.TermChanCapacity < 0 || capv < pf.TermChanCapacity {
							pf.TermChanCapacity = capv
						}
					}
				}
			case *ast.AssignStmt:
				if x.Tok == token.DEFINE {
					for i, l := range x.Lhs {
						if id, ok := l.(*ast.Ident); ok && id.Obj != nil && i < len(x.Rhs) {
							if call, ok := x.Rhs[i].(*ast.CallExpr); ok {
								if f, ok := call.Fun.(*ast.Ident); ok && f.Name == "make" && len(call.Args) >= 1 {
									if _, ok := call.Args[0].(*ast.MapType); ok {
										mapLocals[id.Obj] = true
									}
								}
							}
						}
					}
				}
			}
			return true
		})
		if pf.TermChanCapacity < 0 {
			c.fail("protocol facts: eventBasedGateway.run makes no chan bool")
			pf.TermChanCapacity = 0
		}
		pf.TermChanTableKept = true
		cas, flagLocal := false, false
		ast.Inspect(run.Body, func(n ast.Node) bool {
			lit, ok := n.(*ast.FuncLit)
			if !ok {
				return true
			}
			ast.Inspect(lit.Body, func(m ast.Node) bool {
				switch y := m.(type) {
				case *ast.AssignStmt:
					if y.Tok == token.ASSIGN {
						for _, l := range y.Lhs {
							if id, ok := l.(*ast.Ident); ok && id.Obj != nil && mapLocals[id.Obj] {
								pf.TermChanTableKept = false
							}
						}
					}
				case *ast.IfStmt:
					if call, ok := y.Cond.(*ast.CallExpr); ok {
						if se, ok := call.Fun.(*ast.SelectorExpr); ok && strings.HasPrefix(se.Sel.Name, "CompareAndSwap") {
							cas = true
							// what is decided on: atomic.CompareAndSwapX(&v, ..) or v.CompareAndSwap(..)
							var target ast.Expr = se.X
							if pkg, ok := se.X.(*ast.Ident); ok && pkg.Name == "atomic" && len(call.Args) > 0 {
								target = call.Args[0]
								if u, ok := target.(*ast.UnaryExpr); ok {
									target = u.X
								}
							}
							if id, ok := target.(*ast.Ident); ok && id.Obj != nil {
								// declared inside the innermost case clause that contains this function literal
								var cc *ast.CaseClause
								ast.Inspect(run.Body, func(k ast.Node) bool {
									if c, ok := k.(*ast.CaseClause); ok && c.Pos() <= lit.Pos() && lit.End() <= c.End() {
										cc = c
									}
									return true
								})
								if cc != nil && cc.Pos() <= id.Obj.Pos() && id.Obj.Pos() <= cc.End() {
									flagLocal = true
								}
							}
						}
					}
				}
				return true
			})
			return true
		})
		pf.DeterminationIsCAS = cas
		pf.FlagPerActivation = cas && flagLocal
	}
	// --- gateway_parallel.go
	if f := c.parse("gateway_parallel.go"); f == nil {
		c.fail("protocol facts: gateway_parallel.go not found")
	} else {
		width := func(t string) int {
			switch t {
			case "int", "uint", "int64", "uint64", "uintptr":
				return 64
			case "int32", "uint32", "rune":
				return 32
			case "int16", "uint16":
				return 16
			case "int8", "uint8", "byte":
				return 8
			}
			return 0
		}
		counters := map[string]bool{}
		ast.Inspect(f, func(n ast.Node) bool {
			ts, ok := n.(*ast.TypeSpec)
			if !ok || ts.Name.Name != "parallelGateway" {
				return true
			}
			if st, ok := ts.Type.(*ast.StructType); ok {
				for _, fl := range st.Fields.List {
					if w := width(nodeText(c.fset, fl.Type)); w > 0 {
						for _, nm := range fl.Names {
							counters[nm.Name] = true
						}
						if pf.JoinCounterBits == 0 || w < pf.JoinCounterBits {
							pf.JoinCounterBits = w
						}
					}
				}
			}
			return false
		})
		if pf.JoinCounterBits == 0 {
			c.fail("protocol facts: struct parallelGateway has no integer field")
		}
		for _, d := range f.Decls {
			fd, ok := d.(*ast.FuncDecl)
			if !ok || fd.Recv == nil || fd.Body == nil || !strings.Contains(nodeText(c.fset, fd.Recv.List[0].Type), "parallelGateway") {
				continue
			}
			ast.Inspect(fd.Body, func(n ast.Node) bool {
				if as, ok := n.(*ast.AssignStmt); ok && as.Tok == token.ASSIGN && len(as.Lhs) == 1 && len(as.Rhs) == 1 {
					if se, ok := as.Lhs[0].(*ast.SelectorExpr); ok && counters[se.Sel.Name] && nodeText(c.fset, as.Rhs[0]) == "0" {
						pf.JoinCounterResets = true
					}
				}
				return true
			})
		}
	}
	// --- activity.go: the token counter of the harness
	if run := findMethod(c.parse("activity.go"), "harness", "run"); run != nil {
		counters := map[string]bool{}
		ast.Inspect(run.Body, func(n ast.Node) bool {
			if inc, ok := n.(*ast.IncDecStmt); ok && inc.Tok == token.INC {
				if se, ok := inc.X.(*ast.SelectorExpr); ok {
					counters[se.Sel.Name] = true
				}
			}
			return true
		})
		if len(counters) == 0 {
			c.fail("protocol facts: harness.run increments no field (the token counter)")
		}
		assigned := false
		if f := c.parse("activity.go"); f != nil {
			ast.Inspect(f, func(n ast.Node) bool {
				if as, ok := n.(*ast.AssignStmt); ok {
					for _, l := range as.Lhs {
						if se, ok := l.(*ast.SelectorExpr); ok && counters[se.Sel.Name] {
							assigned = true
						}
					}
				}
				return true
			})
		}
		pf.CounterNeverSetBack = len(counters) > 0 && !assigned
	}
	// --- subprocess.go: the completion monitor's accumulator
	if mon := findMethod(c.parse("subprocess.go"), "subProcess", "ceaseFlowMonitor"); mon == nil {
		c.fail("protocol facts: subProcess.ceaseFlowMonitor not found")
	} else {
		calls, local := 0, 0
		ast.Inspect(mon.Body, func(n ast.Node) bool {
			lit, ok := n.(*ast.FuncLit)
			if !ok {
				return true
			}
			ast.Inspect(lit.Body, func(m ast.Node) bool {
				call, ok := m.(*ast.CallExpr)
				if !ok {
					return true
				}
				if id, ok := call.Fun.(*ast.Ident); ok && id.Name == "startEventFired" && len(call.Args) >= 2 {
					calls++
					if a, ok := call.Args[1].(*ast.Ident); ok && a.Obj != nil && lit.Pos() <= a.Obj.Pos() && a.Obj.Pos() <= lit.End() {
						local++
					}
				}
				return true
			})
			return false
		})
		if calls == 0 {
			c.fail("protocol facts: subProcess.ceaseFlowMonitor does not call startEventFired inside its function literal")
		}
		pf.AccumulatorIsLocal = calls > 0 && local == calls
	}
	// --- gateway_exclusive.go: the probing table
	if f := c.parse("gateway_exclusive.go"); f == nil {
		c.fail("protocol facts: gateway_exclusive.go not found")
	} else {
		tables := map[string]string{} // field name -> key type
		ast.Inspect(f, func(n ast.Node) bool {
			ts, ok := n.(*ast.TypeSpec)
			if !ok || ts.Name.Name != "exclusiveGateway" {
				return true
			}
			if st, ok := ts.Type.(*ast.StructType); ok {
				for _, fl := range st.Fields.List {
					if mt, ok := fl.Type.(*ast.MapType); ok {
						for _, nm := range fl.Names {
							tables[nm.Name] = nodeText(c.fset, mt.Key)
						}
					}
				}
			}
			return false
		})
		if len(tables) == 0 {
			c.fail("protocol facts: struct exclusiveGateway has no map-typed field")
		}
		good := len(tables) > 0
		for _, kt := range tables {
			if kt != "id.Id" {
				good = false
			}
		}
		ast.Inspect(f, func(n ast.Node) bool {
			ix, ok := n.(*ast.IndexExpr)
			if !ok {
				return true
			}
			if se, ok := ix.X.(*ast.SelectorExpr); ok {
				if _, isTable := tables[se.Sel.Name]; isTable {
					txt := nodeText(c.fset, ix.Index)
					if !strings.HasSuffix(txt, ".flowId") && !strings.HasSuffix(txt, ".Id()") {
						good = false
					}
				}
			}
			return true
		})
		pf.ProbingKeyIsTheId = good
	}
	// --- flow_wiring.go: the order of a node's flows
	if f := c.parse("flow_wiring.go"); f == nil {
		c.fail("protocol facts: flow_wiring.go not found")
	} else {
		found := false
		for _, d := range f.Decls {
			fd, ok := d.(*ast.FuncDecl)
			if !ok || fd.Name.Name != "sequenceFlows" || fd.Body == nil || fd.Type.Params == nil || len(fd.Type.Params.List) < 2 {
				continue
			}
			found = true
			refs := ""
			if names := fd.Type.Params.List[len(fd.Type.Params.List)-1].Names; len(names) > 0 {
				refs = names[0].Name
			}
			result := ""
			if fd.Type.Results != nil && len(fd.Type.Results.List) > 0 && len(fd.Type.Results.List[0].Names) > 0 {
				result = fd.Type.Results.List[0].Names[0].Name
			}
			sameIndex, appends := false, false
			ast.Inspect(fd.Body, func(n ast.Node) bool {
				switch x := n.(type) {
				case *ast.RangeStmt:
					key, ok := x.Key.(*ast.Ident)
					if !ok {
						return true
					}
					readsRef, storesAt := false, false
					ast.Inspect(x.Body, func(m ast.Node) bool {
						switch y := m.(type) {
						case *ast.IndexExpr:
							if id, ok := y.Index.(*ast.Ident); ok && id.Name == key.Name && strings.Contains(nodeText(c.fset, y.X), refs) {
								readsRef = true
							}
						case *ast.AssignStmt:
							for _, l := range y.Lhs {
								if ix, ok := l.(*ast.IndexExpr); ok {
									if id, ok := ix.Index.(*ast.Ident); ok && id.Name == key.Name && nodeText(c.fset, ix.X) == result {
										storesAt = true
									}
								}
							}
						}
						return true
					})
					if readsRef && storesAt {
						sameIndex = true
					}
				case *ast.CallExpr:
					if id, ok := x.Fun.(*ast.Ident); ok && id.Name == "append" && len(x.Args) > 0 && nodeText(c.fset, x.Args[0]) == result {
						appends = true
					}
				}
				return true
			})
			pf.FlowsInRefOrder = refs != "" && result != "" && sameIndex && !appends
		}
		if !found {
			c.fail("protocol facts: sequenceFlows not found in flow_wiring.go")
		}
	}
	// --- flow.go: when the handler of an answer is read
	if f := c.parse("flow.go"); f == nil {
		c.fail("protocol facts: flow.go not found")
	} else {
		reads, guarded := 0, 0
		var stack []ast.Node
		ast.Inspect(f, func(n ast.Node) bool {
			if n == nil {
				stack = stack[:len(stack)-1]
				return true
			}
			stack = append(stack, n)
			if u, ok := n.(*ast.UnaryExpr); ok && u.Op == token.ARROW {
				if se, ok := u.X.(*ast.SelectorExpr); ok && se.Sel.Name == "handler" {
					reads++
					for _, anc := range stack {
						if is, ok := anc.(*ast.IfStmt); ok && strings.Contains(nodeText(c.fset, is.Cond), "err != nil") && is.Body.Pos() <= n.Pos() && n.End() <= is.Body.End() {
							guarded++
							break
						}
					}
				}
			}
			return true
		})
		if reads == 0 {
			c.fail("protocol facts: flow.go never receives from a handler channel")
		}
		pf.HandlerOnlyOnError = reads > 0 && guarded == reads
	}
	// --- pkg/tracing/tracer.go: Unsubscribe
	if un := findMethod(c.parse("pkg/tracing/tracer.go"), "tracer", "Unsubscribe"); un == nil || un.Type.Params == nil || len(un.Type.Params.List) == 0 || len(un.Type.Params.List[0].Names) == 0 {
		c.fail("protocol facts: tracer.Unsubscribe(channel) not found in pkg/tracing/tracer.go")
	} else {
		param := un.Type.Params.List[0].Names[0].Name
		selects, draining := 0, 0
		ast.Inspect(un.Body, func(n ast.Node) bool {
			sel, ok := n.(*ast.SelectStmt)
			if !ok {
				return true
			}
			waits, drains := false, false
			for _, cl := range sel.Body.List {
				cc, ok := cl.(*ast.CommClause)
				if !ok || cc.Comm == nil {
					continue
				}
				switch x := cc.Comm.(type) {
				case *ast.SendStmt:
					waits = true
				case *ast.ExprStmt:
					if u, ok := x.X.(*ast.UnaryExpr); ok && u.Op == token.ARROW {
						if id, ok := u.X.(*ast.Ident); ok && id.Name == param {
							drains = true
						} else if !strings.Contains(nodeText(c.fset, u.X), "Done") {
							waits = true
						}
					}
				case *ast.AssignStmt:
					waits = true
				}
			}
			if waits {
				selects++
				if drains {
					draining++
				}
			}
			return true
		})
		if selects == 0 {
			c.fail("protocol facts: tracer.Unsubscribe has no select that offers the request or awaits the acknowledgement")
		}
		pf.UnsubscribeDrains = selects > 0 && draining == selects
	}
	// --- pkg/tracing/tracer.go run: how a trace is pushed to the subscribers
	if run := findMethod(c.parse("pkg/tracing/tracer.go"), "tracer", "run"); run == nil {
		c.fail("protocol facts: tracer.run not found in pkg/tracing/tracer.go")
	} else {
		plain, other := 0, 0
		ast.Inspect(run.Body, func(n ast.Node) bool {
			rg, ok := n.(*ast.RangeStmt)
			if !ok || !strings.HasSuffix(nodeText(c.fset, rg.X), "subscribers") {
				return true
			}
			v, ok := rg.Value.(*ast.Ident)
			if !ok {
				return true
			}
			direct := map[ast.Node]bool{}
			for _, st := range rg.Body.List {
				if snd, ok := st.(*ast.SendStmt); ok {
					direct[snd] = true
				}
			}
			ast.Inspect(rg.Body, func(m ast.Node) bool {
				if snd, ok := m.(*ast.SendStmt); ok {
					if id, ok := snd.Chan.(*ast.Ident); ok && id.Name == v.Name {
						if direct[snd] {
							plain++
						} else {
							other++
						}
					}
				}
				return true
			})
			return true
		})
		if plain+other == 0 {
			c.fail("protocol facts: tracer.run has no send to a subscriber inside a range over the subscribers")
		}
		pf.PushWaits = plain > 0 && other == 0
	}
	// --- gateway_exclusive.go: the slice a decision is handed over in
	if run := findMethod(c.parse("gateway_exclusive.go"), "exclusiveGateway", "run"); run == nil {
		c.fail("protocol facts: exclusiveGateway.run not found")
	} else {
		appends, fresh := 0, 0
		var clauses []*ast.CaseClause
		ast.Inspect(run.Body, func(n ast.Node) bool {
			if cc, ok := n.(*ast.CaseClause); ok {
				clauses = append(clauses, cc)
			}
			return true
		})
		ast.Inspect(run.Body, func(n ast.Node) bool {
			call, ok := n.(*ast.CallExpr)
			if !ok {
				return true
			}
			if id, ok := call.Fun.(*ast.Ident); !ok || id.Name != "append" || len(call.Args) == 0 {
				return true
			}
			target, ok := call.Args[0].(*ast.Ident)
			if !ok || target.Obj == nil {
				appends++ // a field or an expression: not a variable of the clause
				return true
			}
			appends++
			var inner *ast.CaseClause
			for _, cc := range clauses {
				if cc.Pos() <= call.Pos() && call.End() <= cc.End() && (inner == nil || inner.Pos() <= cc.Pos()) {
					inner = cc
				}
			}
			if inner != nil && inner.Pos() <= target.Obj.Pos() && target.Obj.Pos() <= inner.End() {
				fresh++
			}
			return true
		})
		if appends == 0 {
			c.fail("protocol facts: exclusiveGateway.run appends to no slice")
		}
		pf.AnswerSliceIsFresh = appends > 0 && fresh == appends
	}
	// --- process_set.go: how a message flow wakes a catch event
	if f := c.parse("process_set.go"); f == nil {
		c.fail("protocol facts: process_set.go not found")
	} else {
		table, found := false, false
		ast.Inspect(f, func(n ast.Node) bool {
			ts, ok := n.(*ast.TypeSpec)
			if !ok || ts.Name.Name != "ProcessSet" {
				return true
			}
			found = true
			if st, ok := ts.Type.(*ast.StructType); ok {
				for _, fl := range st.Fields.List {
					if mt, ok := fl.Type.(*ast.MapType); ok {
						if _, isChan := mt.Value.(*ast.ChanType); isChan {
							table = true
						}
					}
				}
			}
			return false
		})
		if !found {
			c.fail("protocol facts: struct ProcessSet not found")
		}
		direct := false
		for _, d := range f.Decls {
			fd, ok := d.(*ast.FuncDecl)
			if !ok || fd.Recv == nil || fd.Body == nil || fd.Name.Name == "tracerProcess" || !strings.Contains(nodeText(c.fset, fd.Recv.List[0].Type), "ProcessSet") {
				continue
			}
			ast.Inspect(fd.Body, func(n ast.Node) bool {
				if call, ok := n.(*ast.CallExpr); ok {
					if se, ok := call.Fun.(*ast.SelectorExpr); ok && se.Sel.Name == "ConsumeEvent" {
						direct = true
					}
				}
				return true
			})
		}
		pf.WakeIsDirect = found && !table && direct
	}
	// --- pkg/data/impl.go
	if sv := findMethod(c.parse("pkg/data/impl.go"), "FlowDataLocator", "SetVariable"); sv == nil {
		c.fail("protocol facts: FlowDataLocator.SetVariable not found in pkg/data/impl.go")
	} else {
		// identifiers whose defining expression reads from a table of the receiver (x := f.variables[..], x, ok := ...)
		fromTable := map[*ast.Object]bool{}
		storesIntoTable := false
		ast.Inspect(sv.Body, func(n ast.Node) bool {
			as, ok := n.(*ast.AssignStmt)
			if !ok {
				return true
			}
			for _, r := range as.Rhs {
				reads := false
				ast.Inspect(r, func(m ast.Node) bool {
					if ix, ok := m.(*ast.IndexExpr); ok {
						if se, ok := ix.X.(*ast.SelectorExpr); ok && se.Sel.Name == "variables" {
							reads = true
						}
					}
					return true
				})
				if reads && as.Tok == token.DEFINE {
					for _, l := range as.Lhs {
						if id, ok := l.(*ast.Ident); ok && id.Obj != nil && id.Name != "ok" && id.Name != "_" {
							fromTable[id.Obj] = true
						}
					}
				}
			}
			return true
		})
		writesThrough := false
		ast.Inspect(sv.Body, func(n ast.Node) bool {
			as, ok := n.(*ast.AssignStmt)
			if !ok {
				return true
			}
			for _, l := range as.Lhs {
				switch x := l.(type) {
				case *ast.IndexExpr:
					if se, ok := x.X.(*ast.SelectorExpr); ok && se.Sel.Name == "variables" {
						storesIntoTable = true
					}
				case *ast.SelectorExpr:
					root := x.X
					for {
						if s2, ok := root.(*ast.SelectorExpr); ok {
							root = s2.X
						} else if st, ok := root.(*ast.StarExpr); ok {
							root = st.X
						} else if pa, ok := root.(*ast.ParenExpr); ok {
							root = pa.X
						} else {
							break
						}
					}
					if id, ok := root.(*ast.Ident); ok && id.Obj != nil && fromTable[id.Obj] {
						writesThrough = true
					}
					if strings.Contains(nodeText(c.fset, x.X), ".variables[") {
						writesThrough = true
					}
				case *ast.StarExpr:
					if id, ok := x.X.(*ast.Ident); ok && id.Obj != nil && fromTable[id.Obj] {
						writesThrough = true
					}
				}
			}
			return true
		})
		if !storesIntoTable {
			c.fail("protocol facts: FlowDataLocator.SetVariable does not store into a table named variables")
		}
		pf.SetVariableReplaces = storesIntoTable && !writesThrough
	}
	return
}

func init() {
	factGens = append(factGens, func(c *factsCtx) {
		pf := protocolFacts(c)
		fmt.Fprintf(&c.out, "(* protocol facts read off the sources (harness/protocol.go) *)\nDefinition src_active_before_arm : bool := %v.\nDefinition src_termchan_capacity : nat := %d.\nDefinition src_termchan_table_kept : bool := %v.\nDefinition src_determination_is_cas : bool := %v.\nDefinition src_subprocess_registers : bool := %v.\nDefinition src_determination_flag_per_activation : bool := %v.\nDefinition src_join_counter_bits : N := %d%%N.\nDefinition src_join_counter_resets : bool := %v.\nDefinition src_setvariable_replaces : bool := %v.\nDefinition src_token_counter_never_set_back : bool := %v.\nDefinition src_monitor_accumulator_is_local : bool := %v.\nDefinition src_probing_key_is_the_id : bool := %v.\nDefinition src_flows_in_reference_order : bool := %v.\nDefinition src_handler_read_only_on_error : bool := %v.\nDefinition src_unsubscribe_drains : bool := %v.\nDefinition src_answer_slice_is_fresh : bool := %v.\nDefinition src_wake_is_direct : bool := %v.\nDefinition src_push_waits_for_the_subscriber : bool := %v.\nDefinition src_subprocess_shares_the_locator : bool := %v.\nDefinition src_subprocess_forwards_directly : bool := %v.\nDefinition src_token_continues_on_the_first_flow_that_flows : bool := %v.\nDefinition src_partition_comes_from_the_library : bool := %v.\n\n",
			pf.ActiveBeforeArm, pf.TermChanCapacity, pf.TermChanTableKept, pf.DeterminationIsCAS, pf.SubProcessRegisters, pf.FlagPerActivation, pf.JoinCounterBits, pf.JoinCounterResets, pf.SetVariableReplaces, pf.CounterNeverSetBack, pf.AccumulatorIsLocal, pf.ProbingKeyIsTheId, pf.FlowsInRefOrder, pf.HandlerOnlyOnError, pf.UnsubscribeDrains, pf.AnswerSliceIsFresh, pf.WakeIsDirect, pf.PushWaits, pf.SubSharesLocator, pf.SubForwardsDirectly, pf.FirstThatFlows, pf.PartitionFromLib)
	})
	commands["protocol"] = func(env *Env) {
		c := &factsCtx{repo: env.Repo, fset: token.NewFileSet()}
		fmt.Printf("%+v %v\n", protocolFacts(c), c.errs)
	}
}
