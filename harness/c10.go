package main

import (
	"fmt"
	bpmn "github.com/olive-io/bpmn/v2"
	"github.com/olive-io/bpmn/v2/pkg/tracing"
	"math/rand"
	"strings"
	"sync"
	"time"
)

func init() { commands["c10"] = runC10 }

var raceSeq int

// start -> P -> H -> N -> end ; boundary events B<i> on H -> X<i> -> end.
// H is a task, or a sub-process whose content is the task HT.
type c10Shape struct {
	name  string
	sub   bool   // host is a sub-process
	kinds []bool // per boundary event: interrupting?
	evs   []int  // per boundary event: the signal it listens for
	two   bool   // a parallel fork sends two tokens into the host at once
}

func (sh c10Shape) tokens() int {
	if sh.two {
		return 2
	}
	return 1
}

func (sh c10Shape) prog() *Prog {
	p := &Prog{}
	p.Node("start", "start")
	p.Node("task", "P")
	if sh.sub {
		h := p.Node("sub", "H")
		h.Sub = &Prog{nflow: 500}
		h.Sub.Node("start", "hs")
		h.Sub.Node("task", "HT")
		h.Sub.Node("end", "he")
		h.Sub.Flow("hs", "HT", "")
		h.Sub.Flow("HT", "he", "")
	} else {
		p.Node("task", "H")
	}
	p.Node("task", "N")
	p.Node("end", "end")
	p.Flow("start", "P", "")
	if sh.two {
		p.Node("par", "F")
		p.Flow("P", "F", "")
		p.Flow("F", "H", "")
		p.Flow("F", "H", "")
	} else {
		p.Flow("P", "H", "")
	}
	p.Flow("H", "N", "")
	p.Flow("N", "end", "")
	for i, intr := range sh.kinds {
		b := p.Node("boundary", fmt.Sprintf("B%d", i))
		b.Attrs = fmt.Sprintf(`attachedToRef="H" cancelActivity="%v"`, intr)
		b.Inner = fmt.Sprintf(`<bpmn:signalEventDefinition id="bd%d" signalRef="s%d"/>`, i, sh.evs[i])
		p.Node("task", fmt.Sprintf("X%d", i))
		p.Node("end", fmt.Sprintf("xe%d", i))
		p.Flow(fmt.Sprintf("B%d", i), fmt.Sprintf("X%d", i), "")
		p.Flow(fmt.Sprintf("X%d", i), fmt.Sprintf("xe%d", i), "")
	}
	return p
}

func (sh c10Shape) hostTask() string {
	if sh.sub {
		return "HT"
	}
	return "H"
}

type c10Obs struct {
	normal   int   // requests of N
	exc      []int // requests of X<i>
	complete bool
	trace    []int // per op: 0 skipped / 1 applied (for p and a), events always applied
	sweep    []int // model operations performed by the final sweep: 0 = a token enters, 1 = a host request answered
	raced    bool
	problem  string
	log      []Ev
}

// ops: "p" answer P (activates the host), "a" answer the host's task, "e<k>" deliver signal k,
// "r<k>" deliver signal k and answer the host's task concurrently
func c10Run(sh c10Shape, ops []string) (o c10Obs) {
	o.exc = make([]int, len(sh.kinds))
	extra := `<bpmn:signal id="s0" name="s0"/><bpmn:signal id="s1" name="s1"/><bpmn:signal id="s2" name="s2"/>`
	defs, err := ParseDefs(sh.prog().XML(extra))
	must(err)
	in, err := StartInst(defs, InstOpt{})
	must(err)
	defer in.Close()
	if !in.WaitUntil(tmoStep, func(l []Ev) bool { return countEv(l, "task", "P") > 0 }) {
		o.problem = "task P never requested"
		o.log = in.Log()
		return
	}
	host := sh.hostTask()
	// harness-side picture of the host (model-free bookkeeping of its own actions and of what it has seen)
	phase := "pre" // pre, active, over
	counts := func() (int, []int) {
		l := in.Log()
		x := make([]int, len(sh.kinds))
		for i := range x {
			x[i] = countEv(l, "task", fmt.Sprintf("X%d", i))
		}
		return countEv(l, "task", "N"), x
	}
	settleCounts := func() { time.Sleep(4 * time.Millisecond) }
	for _, op := range ops {
		switch {
		case op == "p":
			if phase != "pre" {
				o.trace = append(o.trace, 0)
				continue
			}
			in.Answer("P", tmoStep)
			if !in.WaitUntil(tmoStep, func(l []Ev) bool { return countEv(l, "task", host) >= sh.tokens() }) {
				o.problem = "host task never requested"
				o.log = in.Log()
				return
			}
			// boundary listeners are armed with the activation
			for i := range sh.kinds {
				b := fmt.Sprintf("B%d", i)
				if !in.WaitUntil(tmoStep, func(l []Ev) bool { return countEv(l, "listening", b) > 0 }) {
					o.problem = "boundary event " + b + " never started listening"
					o.log = in.Log()
					return
				}
			}
			in.WaitUntil(tmoStep, func(l []Ev) bool { return countEv(l, "boundary", "H") >= sh.tokens() })
			phase = "active"
			o.trace = append(o.trace, 1)
		case op == "a":
			if phase == "pre" || len(in.PendingNodes()) == 0 || !containsStr(in.PendingNodes(), host) {
				o.trace = append(o.trace, 0)
				continue
			}
			n0, _ := counts()
			in.Answer(host, time.Second)
			// the normal flow continues unless the host was interrupted before; wait briefly either way
			in.WaitUntil(40*time.Millisecond, func(l []Ev) bool { return countEv(l, "task", "N") > n0 })
			settleCounts()
			if !containsStr(in.PendingNodes(), host) {
				phase = "over"
			}
			o.trace = append(o.trace, 1)
		case strings.HasPrefix(op, "e"):
			var k int
			fmt.Sscanf(op[1:], "%d", &k)
			_, x0 := counts()
			done := make(chan struct{})
			go func() { in.Signal(fmt.Sprintf("s%d", k)); close(done) }()
			select {
			case <-done:
			case <-time.After(2 * time.Second):
				o.problem = "event delivery did not return"
				o.log = in.Log()
				return
			}
			// wait for the reactions a listening boundary event may have, briefly
			if phase == "active" {
				for i := range sh.kinds {
					if sh.evs[i] == k {
						xi := fmt.Sprintf("X%d", i)
						want := x0[i] + 1
						in.WaitUntil(60*time.Millisecond, func(l []Ev) bool { return countEv(l, "task", xi) >= want })
					}
				}
				// a non-interrupting listener announces when it listens again
				time.Sleep(3 * time.Millisecond)
			}
			settleCounts()
			o.trace = append(o.trace, 1)
		case strings.HasPrefix(op, "r"):
			var k int
			fmt.Sscanf(op[1:], "%d", &k)
			if phase != "active" || !containsStr(in.PendingNodes(), host) || sh.two {
				o.trace = append(o.trace, 0)
				continue
			}
			o.raced = true
			var wg sync.WaitGroup
			wg.Add(2)
			// the answer follows the delivery by 0..250 microseconds (varied from run to run): the event is then
			// delivered while the host still waits, and its listener's decision meets the answer at the arbiter
			raceSeq++
			lag := time.Duration(raceSeq%6) * 50 * time.Microsecond
			go func() { defer wg.Done(); in.Signal(fmt.Sprintf("s%d", k)) }()
			go func() {
				defer wg.Done()
				for t0 := time.Now(); time.Since(t0) < lag; {
				}
				in.Answer(host, time.Second)
			}()
			wg.Wait()
			time.Sleep(30 * time.Millisecond)
			phase = "over"
			o.trace = append(o.trace, 1)
		}
	}
	// finish: answer whatever is pending (P, host, N, X*), then the instance must complete
	deadline := time.Now().Add(tmoStep)
	for time.Now().Before(deadline) {
		pn := in.PendingNodes()
		if len(pn) == 0 {
			if in.WaitUntil(30*time.Millisecond, func(l []Ev) bool { return countEv(l, "cease", "*") > 0 }) {
				break
			}
			if len(in.PendingNodes()) == 0 && time.Until(deadline) < tmoStep-400*time.Millisecond {
				break
			}
			continue
		}
		for _, n := range pn {
			if in.Answer(n, time.Second) {
				switch n {
				case "P":
					for i := 0; i < sh.tokens(); i++ {
						o.sweep = append(o.sweep, 0)
					}
					in.WaitUntil(tmoStep, func(l []Ev) bool { return countEv(l, "task", host) >= sh.tokens() })
				case host:
					o.sweep = append(o.sweep, 1)
				}
			}
		}
		time.Sleep(2 * time.Millisecond)
	}
	o.complete = in.WaitUntil(300*time.Millisecond, func(l []Ev) bool { return countEv(l, "cease", "*") > 0 })
	time.Sleep(settle)
	o.log = in.Log()
	o.normal, o.exc = counts()
	return
}

func containsStr(l []string, s string) bool {
	for _, x := range l {
		if x == s {
			return true
		}
	}
	return false
}

// c10Expect is the direct oracle: the counts BPMN prescribes for the applied history.
// Returns the admissible outcomes (two when an event raced the answer).
func c10Expect(sh c10Shape, ops []string, applied []int, sweep []int) (outs [][]int) {
	type st struct {
		inside int
		normal int
		exc    []int
	}
	states := []st{{0, 0, make([]int, len(sh.kinds))}}
	cp := func(s st) st { s.exc = append([]int{}, s.exc...); return s }
	event := func(s st, k int) st {
		s = cp(s)
		if s.inside == 0 {
			return s
		}
		hit := false
		for i, intr := range sh.kinds { // every listening boundary event reacts to the one delivery
			if sh.evs[i] != k {
				continue
			}
			s.exc[i]++
			hit = hit || intr
		}
		if hit {
			s.inside = 0
		}
		return s
	}
	answer := func(s st) st {
		s = cp(s)
		if s.inside > 0 {
			s.normal++
			s.inside--
		}
		return s
	}
	for i, op := range ops {
		var next []st
		for _, s := range states {
			switch {
			case applied[i] == 0:
				next = append(next, s)
			case op == "p":
				s.inside += sh.tokens()
				next = append(next, s)
			case op == "a":
				next = append(next, answer(s))
			case op[0] == 'e':
				var k int
				fmt.Sscanf(op[1:], "%d", &k)
				next = append(next, event(s, k))
			case op[0] == 'r':
				var k int
				fmt.Sscanf(op[1:], "%d", &k)
				next = append(next, answer(event(s, k)), event(answer(s), k))
			}
		}
		states = next
	}
	for _, s := range states {
		for _, o := range sweep {
			if o == 0 {
				s.inside++
			} else {
				s = answer(s)
			}
		}
		outs = append(outs, append([]int{s.normal}, s.exc...))
	}
	return
}

func runC10(env *Env) {
	rep := &Report{Property: "C10",
		Rule: "host activity (task, or sub-process holding a task) with 1..2 boundary signal events of either kind; seeded histories of up to 8 operations over {activate the host, deliver s0/s1/s2, answer the host, deliver an event and answer concurrently}, so that events arrive before activation, while the host waits, repeatedly, and after it completed; at the end every pending task is answered and the instance must complete; compared: requests of the normal-path task and of each exception-path task; non-trivial = at least one matching event while the host waits; distinct by (shape, history)"}
	rng := rand.New(rand.NewSource(env.Seed))
	nHist := 14
	if env.Thorough() {
		nHist = 150
	}
	shapes := []c10Shape{
		{"task/interrupting", false, []bool{true}, []int{0}, false},
		{"task/non-interrupting", false, []bool{false}, []int{0}, false},
		{"task/interrupting+non-interrupting", false, []bool{true, false}, []int{0, 1}, false},
		{"task/two non-interrupting, same event", false, []bool{false, false}, []int{0, 0}, false},
		{"sub-process/interrupting", true, []bool{true}, []int{0}, false},
		{"sub-process/non-interrupting+interrupting", true, []bool{false, true}, []int{0, 1}, false},
		{"task with two tokens/non-interrupting+interrupting", false, []bool{false, true}, []int{0, 1}, true},
	}
	var items []string
	for _, sh := range shapes {
		hists := [][]string{
			{"p", "e0", "a"}, {"e0", "p", "a"}, {"p", "a", "e0"}, {"p", "e0", "e0", "a"}, {"p", "a"}, {"p", "e1", "e0", "a", "e0"}, {"p", "r0"},
		}
		for h := 0; h < nHist; h++ {
			n := 2 + rng.Intn(7)
			var ops []string
			for i := 0; i < n; i++ {
				switch k := rng.Intn(10); {
				case k < 2:
					ops = append(ops, "p")
				case k < 4:
					ops = append(ops, "a")
				case k < 9:
					ops = append(ops, fmt.Sprintf("e%d", rng.Intn(3)))
				default:
					ops = append(ops, fmt.Sprintf("r%d", rng.Intn(2)))
				}
			}
			hists = append(hists, ops)
		}
		// the answer racing an interrupting event, again and again: the outcome must be one of the two orders, never both flows
		if len(sh.kinds) == 1 && sh.kinds[0] && !sh.two {
			races := 30
			if env.Thorough() {
				races = 200
			}
			for i := 0; i < races; i++ {
				hists = append(hists, []string{"p", "r0"})
			}
		}
		seen := map[string]bool{}
		for hi, ops := range hists {
			key := strings.Join(ops, ",")
			if key == "p,r0" {
				key = fmt.Sprintf("p,r0#%d", hi) // repeated on purpose
			}
			if seen[key] || rep.Saturated() {
				continue
			}
			seen[key] = true
			cs := fmt.Sprintf("shape=%s history=%v", sh.name, ops)
			env.Current(cs)
			o := c10Run(sh, ops)
			rep.Evaluations++
			rep.Count("shape_" + sh.name)
			if o.problem != "" {
				rep.Violate("C10-stuck", cs, o.problem+"; log: "+logString(o.log))
				continue
			}
			outs := c10Expect(sh, ops, o.trace, o.sweep)
			got := append([]int{o.normal}, o.exc...)
			ok := false
			for _, w := range outs {
				if intsEq(w, got) {
					ok = true
				}
			}
			nontriv := false
			for _, w := range outs {
				for _, x := range w[1:] {
					if x > 0 {
						nontriv = true
					}
				}
			}
			if nontriv {
				rep.Nontrivial++
			}
			if !ok {
				rep.Violate("C10-flows", cs, fmt.Sprintf("requests [normal, exception...] = %v, BPMN prescribes %v; log: %s", got, outs, logString(o.log)))
			}
			if !o.complete {
				rep.Violate("C10-completion", cs, "every task was answered but the instance did not complete; log: "+logString(o.log))
			}
			var sp, cops []string
			for i := range sh.kinds {
				sp = append(sp, fmt.Sprintf("(%d,%d)", b2i(sh.kinds[i]), sh.evs[i]))
			}
			for i, op := range ops {
				if o.trace[i] == 0 {
					continue
				}
				var k int
				switch op[0] {
				case 'p':
					for j := 0; j < sh.tokens(); j++ {
						cops = append(cops, "0")
					}
				case 'a':
					cops = append(cops, "1")
				case 'e':
					fmt.Sscanf(op[1:], "%d", &k)
					cops = append(cops, fmt.Sprint(2+k))
				case 'r':
					fmt.Sscanf(op[1:], "%d", &k)
					cops = append(cops, fmt.Sprint(100+k))
				}
			}
			for _, x := range o.sweep {
				cops = append(cops, fmt.Sprint(x))
			}
			items = append(items, fmt.Sprintf("([%s],[%s],%d,%s,%d)", strings.Join(sp, ";"), strings.Join(cops, ";"), o.normal, natList(o.exc), b2i(o.complete)))
			if nontriv && len(rep.Samples) < 5 {
				rep.Sample(fmt.Sprintf("%s -> requests [normal, exception...] %v, completed %v", cs, got, o.complete))
			}
		}
	}
	boundaryPromptDelivery(env, rep, "C10-flows", 12)
	boundaryStaleEvents(env, rep, "C10-flows", 8)
	threeTokensOneTask(env, rep, "C10-flows", 4)
	boundaryReentryAfterInterruption(env, rep, "C10-flows", 4)
	boundaryTwoHosts(env, rep, "C10-flows", 6)
	boundaryLateAnswerAfterReentry(env, rep, "C10-flows", 4)
	boundaryAnswerRightBehindEvent(env, rep, "C10-flows", 40)
	env.WriteCases(rep, "", "Corr.C10corr", "list (nat * nat) * list nat * nat * list nat * nat", items, "c10_mismatches")
	env.WriteReport(rep)
}

// boundaryPromptDelivery: a task with three non-interrupting boundary events; the first one's event is delivered the
// moment that boundary event announces that it listens (while the others are still being armed): it must continue
// exactly once. Returns the number of rounds in which it did not.
func boundaryPromptDelivery(env *Env, rep *Report, key string, rounds int) {
	sh := c10Shape{"three boundary events", false, []bool{false, false, false}, []int{0, 1, 2}, false}
	xmlText := sh.prog().XML(`<bpmn:signal id="s0" name="s0"/><bpmn:signal id="s1" name="s1"/><bpmn:signal id="s2" name="s2"/>`)
	for r := 0; r < rounds && !rep.Saturated(); r++ {
		cs := fmt.Sprintf("task with three boundary events; s0 delivered the moment B0 announces that it listens (round %d)", r)
		env.Current(cs)
		defs, err := ParseDefs(xmlText)
		must(err)
		trigger := make(chan struct{}, 1)
		in, err := StartInst(defs, InstOpt{Raw: func(t tracing.ITrace) {
			if l, ok := t.(bpmn.ActiveListeningTrace); ok && nodeId(l.Node) == "B0" {
				select {
				case trigger <- struct{}{}:
				default:
				}
			}
		}})
		must(err)
		delivered := make(chan struct{})
		go func() {
			defer close(delivered)
			select {
			case <-trigger:
				in.Signal("s0")
			case <-time.After(tmoStep):
			}
		}()
		in.Answer("P", tmoStep)
		select {
		case <-delivered:
		case <-time.After(2 * tmoStep):
		}
		rep.Evaluations++
		rep.Nontrivial++
		rep.Count("prompt_delivery")
		ok := in.WaitUntil(tmoStep, func(l []Ev) bool { return countEv(l, "task", "X0") >= 1 })
		time.Sleep(5 * time.Millisecond)
		if n := countEv(in.Log(), "task", "X0"); !ok || n != 1 {
			rep.Violate(key, cs, fmt.Sprintf("the exception flow of B0 was requested %d times, expected once; log: %s", n, logString(in.Log())))
		}
		in.Close()
	}
}

// boundaryStaleEvents: a task with a non-interrupting boundary event sits in a loop (H -> G -> back to H). In the first
// activation a burst of matching events is delivered and H is answered at once (some events find the listener gone);
// the driver then waits, at G, until nothing moves any more, and lets the token go round: in the second activation no
// event is delivered, so the boundary event must not continue — events of an earlier activation are dropped without
// effect on later listeners.
func boundaryStaleEvents(env *Env, rep *Report, key string, rounds int) {
	p := &Prog{}
	p.Node("start", "start")
	p.Node("xor", "M")
	p.Node("task", "H")
	g := p.Node("task", "G")
	g.Results = []string{"again"}
	x := p.Node("xor", "X")
	p.Node("end", "end")
	p.Flow("start", "M", "")
	p.Flow("M", "H", "")
	p.Flow("H", "G", "")
	p.Flow("G", "X", "")
	p.Flow("X", "M", "again")
	x.Default = p.Flow("X", "end", "").ID
	b := p.Node("boundary", "B0")
	b.Attrs = `attachedToRef="H" cancelActivity="false"`
	b.Inner = `<bpmn:signalEventDefinition id="bd0" signalRef="s0"/>`
	p.Node("task", "X0")
	p.Node("end", "xe0")
	p.Flow("B0", "X0", "")
	p.Flow("X0", "xe0", "")
	xmlText := p.XML(`<bpmn:signal id="s0" name="s0"/>`)
	for r := 0; r < rounds && !rep.Saturated(); r++ {
		cs := fmt.Sprintf("task with a non-interrupting boundary event in a loop: 8 events and the answer at once in the first activation, none in the second (round %d)", r)
		env.Current(cs)
		defs, err := ParseDefs(xmlText)
		must(err)
		in, err := StartInst(defs, InstOpt{Vars: map[string]any{"again": false}})
		must(err)
		rep.Evaluations++
		rep.Nontrivial++
		rep.Count("stale_events")
		fail := func(msg string) { rep.Violate(key, cs, msg+"; log: "+logString(in.Log())) }
		t1 := in.WaitTask("H", tmoStep)
		if t1 == nil || !in.WaitUntil(tmoStep, func(l []Ev) bool { return countEv(l, "listening", "B0") >= 1 }) {
			fail("first activation: H not requested with its boundary event listening")
			in.Close()
			continue
		}
		for i := 0; i < 8; i++ {
			in.Signal("s0")
		}
		t1.Do()
		tg := in.WaitTask("G", tmoStep)
		if tg == nil {
			fail("G not requested after H")
			in.Close()
			continue
		}
		// wait until the first activation has come to rest: no new trace for a while
		for quiet, last := 0, -1; quiet < 6; {
			time.Sleep(10 * time.Millisecond)
			if n := len(in.Log()); n == last {
				quiet++
			} else {
				quiet, last = 0, n
			}
		}
		first := countEv(in.Log(), "task", "X0")
		tg.Do(bpmn.DoWithResults(map[string]any{"again": true}))
		t2 := in.WaitTask("H", tmoStep)
		if t2 == nil {
			fail("second activation: H not requested")
			in.Close()
			continue
		}
		time.Sleep(2 * settle)
		if now := countEv(in.Log(), "task", "X0"); now != first {
			fail(fmt.Sprintf("the boundary event continued %d times in the second activation although no event was delivered in it (%d continuations in the first)", now-first, first))
		}
		t2.Do()
		in.Answer("G", tmoStep, bpmn.DoWithResults(map[string]any{"again": false}))
		for i := 0; i < 16; i++ {
			if !in.Answer("X0", 30*time.Millisecond) {
				break
			}
		}
		if !in.WaitCease(tmoStep) {
			fail("all tasks answered, the instance did not complete")
		}
		in.Close()
	}
}

// boundaryReentryAfterInterruption: the exception flow of an interrupting boundary event leads back into the task it
// interrupted. The second activation is an activation like the first: the task waits for its answer, the boundary
// event listens again (and interrupts again when its event comes), the answer lets the normal flow continue.
func boundaryReentryAfterInterruption(env *Env, rep *Report, key string, rounds int) {
	p := &Prog{}
	p.Node("start", "start")
	p.Node("xor", "M")
	p.Node("task", "H")
	p.Node("task", "N")
	p.Node("end", "end")
	p.Flow("start", "M", "")
	p.Flow("M", "H", "")
	p.Flow("H", "N", "")
	p.Flow("N", "end", "")
	b := p.Node("boundary", "B0")
	b.Attrs = `attachedToRef="H" cancelActivity="true"`
	b.Inner = `<bpmn:signalEventDefinition id="bd0" signalRef="s0"/>`
	// the task on the exception flow declares a result and is answered with it (the exception flow's token stores
	// variables like any other)
	x0 := p.Node("task", "X0")
	x0.Results = []string{"seen"}
	p.Flow("B0", "X0", "")
	p.Flow("X0", "M", "")
	xmlText := p.XML(`<bpmn:signal id="s0" name="s0"/>`)
	for r := 0; r < rounds && !rep.Saturated(); r++ {
		cs := fmt.Sprintf("interrupting boundary event whose exception flow leads back into the task: interrupted %d times, then answered (round %d)", 1+r%2, r)
		env.Current(cs)
		defs, err := ParseDefs(xmlText)
		must(err)
		in, err := StartInst(defs, InstOpt{})
		must(err)
		rep.Evaluations++
		rep.Nontrivial++
		rep.Count("reentry_after_interruption")
		problem := ""
		act := 0
		for i := 0; i < 1+r%2 && problem == ""; i++ {
			act++
			if !in.WaitUntil(tmoStep, func(l []Ev) bool { return countEv(l, "task", "H") >= act && countEv(l, "listening", "B0") >= act }) {
				problem = fmt.Sprintf("activation %d: H not requested with its boundary event listening", act)
				break
			}
			in.Signal("s0")
			if !in.Answer("X0", tmoStep, bpmn.DoWithResults(map[string]any{"seen": act})) {
				problem = fmt.Sprintf("activation %d: the interrupting event did not lead to the exception flow", act)
			}
		}
		if problem == "" {
			act++
			if !in.WaitUntil(tmoStep, func(l []Ev) bool { return countEv(l, "task", "H") >= act && countEv(l, "listening", "B0") >= act }) {
				problem = fmt.Sprintf("activation %d (after the interruption): H not requested with its boundary event listening", act)
			} else {
				time.Sleep(10 * time.Millisecond)
				if n := countEv(in.Log(), "task", "N"); n != 0 {
					problem = fmt.Sprintf("the normal flow continued %d times before H was answered", n)
				}
			}
		}
		if problem == "" {
			// the last H request is the live one
			var last bpmn.TaskTrace
			for {
				t := in.WaitTask("H", 20*time.Millisecond)
				if t == nil {
					break
				}
				last = t
			}
			if last == nil {
				problem = "no request of H is pending in the last activation"
			} else {
				last.Do()
				if !in.Answer("N", tmoStep) {
					problem = "H answered in its last activation, the normal flow did not continue"
				} else if !in.WaitCease(tmoStep) {
					problem = "all tasks answered, the instance did not complete"
				}
			}
		}
		if problem != "" {
			rep.Violate(key, cs, problem+"; log: "+logString(in.Log()))
		}
		in.Close()
	}
}

// boundaryTwoHosts: two tasks in sequence (A then B), each with its own boundary event, in either declaration order, and
// two instances in a row from one parsed document. Every boundary event belongs to its own task only: while A waits,
// B's event is dropped and A's continues A's exception flow; while B waits it is the other way round; an interrupting
// event at B ends B without normal flow, a non-interrupting one lets B's answer continue it.
func boundaryTwoHosts(env *Env, rep *Report, key string, rounds int) {
	for r := 0; r < rounds && !rep.Saturated(); r++ {
		bFirst, intA, intB := r%2 == 0, r%4 >= 2 && r%3 == 0, r%3 != 1
		p := &Prog{}
		p.Node("start", "start")
		p.Node("task", "A")
		p.Node("task", "B")
		p.Node("task", "N")
		p.Node("end", "end")
		p.Flow("start", "A", "")
		p.Flow("A", "B", "")
		p.Flow("B", "N", "")
		p.Flow("N", "end", "")
		decl := func(host string, interrupting bool) {
			b := p.Node("boundary", "B"+host)
			b.Attrs = fmt.Sprintf(`attachedToRef="%s" cancelActivity="%v"`, host, interrupting)
			b.Inner = fmt.Sprintf(`<bpmn:signalEventDefinition id="bd%s" signalRef="s%s"/>`, host, host)
		}
		if bFirst {
			decl("B", intB)
			decl("A", intA)
		} else {
			decl("A", intA)
			decl("B", intB)
		}
		for _, h := range []string{"A", "B"} {
			p.Node("task", "X"+h)
			p.Node("end", "xe"+h)
			p.Flow("B"+h, "X"+h, "")
			p.Flow("X"+h, "xe"+h, "")
		}
		xmlText := p.XML(`<bpmn:signal id="sA" name="sA"/><bpmn:signal id="sB" name="sB"/>`)
		for inst := 1; inst <= 2 && !rep.Saturated(); inst++ {
			cs := fmt.Sprintf("two tasks in sequence with one boundary event each (A's interrupting %v, B's interrupting %v, B's declared first %v), instance %d of one parsed document", intA, intB, bFirst, inst)
			env.Current(cs)
			defs, err := ParseDefsShared(xmlText)
			must(err)
			in, err := StartInst(defs, InstOpt{})
			must(err)
			rep.Evaluations++
			rep.Nontrivial++
			rep.Count("two_hosts")
			problem := ""
			xs := func(h string) int { return countEv(in.Log(), "task", "X"+h) }
			host := func(h, other string, interrupting bool, next string) {
				if problem != "" {
					return
				}
				if !in.WaitUntil(tmoStep, func(l []Ev) bool { return countEv(l, "task", h) >= 1 && countEv(l, "listening", "B"+h) >= 1 }) {
					problem = fmt.Sprintf("%s not requested with its boundary event listening", h)
					return
				}
				a0, b0 := xs(h), xs(other)
				in.Signal("s" + other)
				in.Signal("s" + h)
				if !in.WaitUntil(tmoStep, func(l []Ev) bool { return countEv(l, "task", "X"+h) > a0 }) {
					problem = fmt.Sprintf("%s waits, its event delivered: the exception flow did not continue", h)
					return
				}
				time.Sleep(settle)
				if xs(h) != a0+1 || xs(other) != b0 {
					problem = fmt.Sprintf("%s waits, one event of each kind delivered: exception flow of %s continued %d times (expected 1), of %s %d times (expected 0)", h, h, xs(h)-a0, other, xs(other)-b0)
					return
				}
				n0 := countEv(in.Log(), "task", next)
				if interrupting {
					time.Sleep(settle)
					if t := in.WaitTask(h, 5*time.Millisecond); t != nil {
						t.Do()
					}
					time.Sleep(settle)
					if n := countEv(in.Log(), "task", next); n != n0 {
						problem = fmt.Sprintf("%s was interrupted, the normal flow continued to %s", h, next)
					}
				} else {
					if !in.Answer(h, tmoStep) || !in.WaitUntil(tmoStep, func(l []Ev) bool { return countEv(l, "task", next) > n0 }) {
						problem = fmt.Sprintf("%s answered, the normal flow did not continue to %s", h, next)
					}
				}
			}
			host("A", "B", intA, "B")
			if !intA {
				host("B", "A", intB, "N")
				if problem == "" && !intB && !in.Answer("N", tmoStep) {
					problem = "N not requested"
				}
			}
			if problem == "" {
				for _, h := range []string{"A", "B"} {
					for in.Answer("X"+h, 30*time.Millisecond) {
					}
				}
				if !in.WaitCease(tmoStep) {
					problem = "all tasks answered, the instance did not complete"
				}
			}
			if problem != "" {
				rep.Violate(key, cs, problem+"; log: "+logString(in.Log()))
			}
			in.Close()
		}
	}
}

// boundaryLateAnswerAfterReentry: a sub-process H (one task HT inside) with an interrupting boundary event whose
// exception flow leads back into H. The event interrupts the first activation while HT waits; the token comes back
// (the engine starts the content of the new activation once the interrupted one's inner token is gone). Then the
// FIRST request of HT -- the interrupted activation's -- is answered: nothing may continue behind H (that activation
// was withdrawn, "even if the task is answered afterwards"), HT is requested again for the live activation, and only
// that request's answer lets the normal flow continue, once.
func boundaryLateAnswerAfterReentry(env *Env, rep *Report, key string, rounds int) {
	p := &Prog{}
	p.Node("start", "start")
	p.Node("xor", "M")
	h := p.Node("sub", "H")
	h.Sub = &Prog{nflow: 600}
	h.Sub.Node("start", "hs")
	h.Sub.Node("task", "HT")
	h.Sub.Node("end", "he")
	h.Sub.Flow("hs", "HT", "")
	h.Sub.Flow("HT", "he", "")
	p.Node("task", "N")
	p.Node("end", "end")
	p.Flow("start", "M", "")
	p.Flow("M", "H", "")
	p.Flow("H", "N", "")
	p.Flow("N", "end", "")
	b := p.Node("boundary", "B0")
	b.Attrs = `attachedToRef="H" cancelActivity="true"`
	b.Inner = `<bpmn:signalEventDefinition id="bd0" signalRef="s0"/>`
	p.Node("task", "X0")
	p.Flow("B0", "X0", "")
	p.Flow("X0", "M", "")
	xmlText := p.XML(`<bpmn:signal id="s0" name="s0"/>`)
	for r := 0; r < rounds && !rep.Saturated(); r++ {
		cs := fmt.Sprintf("sub-process with an interrupting boundary event whose exception flow leads back into it: interrupted while its inner task waits, re-entered, then the interrupted activation's inner task is answered, then the live one's (round %d)", r)
		env.Current(cs)
		defs, err := ParseDefs(xmlText)
		must(err)
		in, err := StartInst(defs, InstOpt{})
		must(err)
		rep.Evaluations++
		rep.Nontrivial++
		rep.Count("late_answer_after_reentry")
		problem := ""
		var old bpmn.TaskTrace
		if !in.WaitUntil(tmoStep, func(l []Ev) bool { return countEv(l, "task", "HT") >= 1 && countEv(l, "listening", "B0") >= 1 }) {
			problem = "HT not requested with the boundary event listening"
		} else if old = in.WaitTask("HT", tmoStep); old == nil {
			problem = "no request of HT is pending"
		} else {
			in.Signal("s0")
			if !in.Answer("X0", tmoStep) {
				problem = "the interrupting event did not lead to the exception flow"
			} else if !in.WaitUntil(tmoStep, func(l []Ev) bool { return countEv(l, "visit", "H") >= 2 && countEv(l, "listening", "B0") >= 2 }) {
				problem = "the token did not come back into H"
			}
		}
		if problem == "" {
			time.Sleep(time.Duration(r%3) * settle)
			old.Do()
			if !in.WaitUntil(tmoStep, func(l []Ev) bool { return countEv(l, "task", "HT") >= 2 }) {
				problem = "the interrupted activation's inner task was answered: HT was not requested for the live activation"
			} else {
				time.Sleep(3 * settle)
				if n := countEv(in.Log(), "task", "N"); n != 0 {
					problem = fmt.Sprintf("the inner task of the interrupted activation was answered: the normal flow continued (%d requests of N) while the live activation's inner task still waits", n)
				}
			}
		}
		if problem == "" {
			if !in.Answer("HT", tmoStep) {
				problem = "no request of HT is pending for the live activation"
			} else if !in.Answer("N", tmoStep) {
				problem = "the live activation's inner task was answered, the normal flow did not continue"
			} else {
				time.Sleep(settle)
				if n := countEv(in.Log(), "task", "N"); n != 1 {
					problem = fmt.Sprintf("N requested %d times, expected once", n)
				} else if !in.WaitCease(tmoStep) {
					problem = "all tasks answered, the instance did not complete"
				}
			}
		}
		if problem != "" {
			rep.Violate(key, cs, problem+"; log: "+logString(in.Log()))
		}
		in.Close()
	}
}

// boundaryAnswerRightBehindEvent: a non-interrupting boundary event fires and the task is answered right behind it (0
// to 150 microseconds later): the exception flow continues once, the normal flow once, and the instance completes
// (the listener that takes the place of the one that left is withdrawn with the activity, wherever it is just then).
func boundaryAnswerRightBehindEvent(env *Env, rep *Report, key string, rounds int) {
	sh := c10Shape{"one boundary event", false, []bool{false}, []int{0}, false}
	xmlText := sh.prog().XML(`<bpmn:signal id="s0" name="s0"/>`)
	bad, first := 0, ""
	for r := 0; r < rounds; r++ {
		defs, err := ParseDefs(xmlText)
		must(err)
		in, err := StartInst(defs, InstOpt{})
		must(err)
		in.Answer("P", tmoStep)
		t := in.WaitTask("H", tmoStep)
		ok := t != nil && in.WaitUntil(tmoStep, func(l []Ev) bool { return countEv(l, "listening", "B0") >= 1 })
		if ok {
			in.Signal("s0")
			time.Sleep(time.Duration(r%4) * 50 * time.Microsecond)
			t.Do()
			for in.Answer("X0", 100*time.Millisecond) {
			}
			in.Answer("N", tmoStep/4)
			for in.Answer("X0", 20*time.Millisecond) {
			}
			ok = in.WaitCease(tmoStep / 4)
		}
		if !ok {
			bad++
			if first == "" {
				first = fmt.Sprintf("round %d: log: %s", r, tailStr(logString(in.Log()), 1200))
			}
		}
		in.Close()
		if bad >= 3 {
			break
		}
	}
	cs := fmt.Sprintf("task with a non-interrupting boundary event: the event, and the answer 0..150 microseconds behind it, %d instances", rounds)
	rep.Evaluations++
	rep.Nontrivial++
	rep.Count("answer_right_behind_event")
	if bad > 0 {
		rep.Violate(key, cs, fmt.Sprintf("%d instances did not complete; first: %s", bad, first))
	}
}
