package main

import (
	"fmt"
	"go/ast"
	"go/printer"
	"go/token"
	"os"
	"path/filepath"
	"sort"
	"strings"
)

// Census of the blocking channel operations of the engine (root package and pkg/tracing): every
// select statement (with or without an alternative that fires on cancellation: a `<-x.Done()` case or
// a default) and every channel send/receive outside a select.  Keyed by file, enclosing function and
// the operation's source text (plus an ordinal when repeated), so that the key survives line shifts.

type blockOp struct {
	File, Func, Text string
	Kind             string // select-guarded select-unguarded send recv range
	Ord              int
}

func (b blockOp) Key() string { return fmt.Sprintf("%s|%s|%s|%s#%d", b.File, b.Func, b.Kind, b.Text, b.Ord) }

func nodeText(fset *token.FileSet, n ast.Node) string {
	var sb strings.Builder
	printer.Fprint(&sb, fset, n)
	s := strings.Join(strings.Fields(sb.String()), " ")
	if len(s) > 90 {
		s = s[:90]
	}
	return s
}

// isDoneRecv: a receive that fires on cancellation or shutdown: `<-x.Done()`, or a receive from a channel
// whose name says so (done, cancelled, interrupt, shutdownCh, terminate, gone ...)
func isDoneRecv(e ast.Expr) bool {
	u, ok := e.(*ast.UnaryExpr)
	if !ok || u.Op != token.ARROW {
		return false
	}
	name := ""
	switch x := u.X.(type) {
	case *ast.CallExpr:
		if s, ok := x.Fun.(*ast.SelectorExpr); ok {
			name = s.Sel.Name
		}
	case *ast.SelectorExpr:
		name = x.Sel.Name
	case *ast.Ident:
		name = x.Name
	}
	name = strings.ToLower(name)
	for _, w := range []string{"done", "cancel", "interrupt", "shutdown", "terminat", "gone"} {
		if strings.Contains(name, w) {
			return true
		}
	}
	return false
}

func censusFile(fset *token.FileSet, rel string, f *ast.File) []blockOp {
	var ops []blockOp
	seen := map[string]int{}
	add := func(fn, kind, text string) {
		k := fn + "|" + kind + "|" + text
		seen[k]++
		ops = append(ops, blockOp{File: rel, Func: fn, Kind: kind, Text: text, Ord: seen[k]})
	}
	for _, d := range f.Decls {
		fd, ok := d.(*ast.FuncDecl)
		if !ok || fd.Body == nil {
			continue
		}
		fn := fd.Name.Name
		if fd.Recv != nil && len(fd.Recv.List) > 0 {
			fn = nodeText(fset, fd.Recv.List[0].Type) + "." + fn
		}
		inComm := map[ast.Node]bool{}
		ast.Inspect(fd.Body, func(n ast.Node) bool {
			switch x := n.(type) {
			case *ast.SelectStmt:
				guarded := false
				var cases []string
				for _, cl := range x.Body.List {
					cc := cl.(*ast.CommClause)
					if cc.Comm == nil {
						guarded = true
						cases = append(cases, "default")
						continue
					}
					inComm[cc.Comm] = true
					switch c := cc.Comm.(type) {
					case *ast.ExprStmt:
						inComm[c.X] = true
						if isDoneRecv(c.X) {
							guarded = true
						}
					case *ast.AssignStmt:
						for _, r := range c.Rhs {
							inComm[r] = true
							if isDoneRecv(r) {
								guarded = true
							}
						}
					}
					cases = append(cases, nodeText(fset, cc.Comm))
				}
				kind := "select-unguarded"
				if guarded {
					kind = "select-guarded"
				}
				add(fn, kind, strings.Join(cases, " ; "))
			case *ast.SendStmt:
				if !inComm[x] {
					add(fn, "send", nodeText(fset, x))
				}
			case *ast.UnaryExpr:
				if x.Op == token.ARROW && !inComm[x] {
					add(fn, "recv", nodeText(fset, x))
				}
			case *ast.RangeStmt:
				// ranging over a channel blocks too; only flagged when the operand is obviously a channel call/field is unknowable here
			}
			return true
		})
	}
	return ops
}

// verifOnly: files compiled only with the verification build tag (the hooks) are not part of the engine
func verifOnly(path string) bool {
	b, err := os.ReadFile(path)
	if err != nil {
		return false
	}
	head := string(b)
	if len(head) > 400 {
		head = head[:400]
	}
	return strings.Contains(head, "//go:build verif")
}

func censusAll(c *factsCtx) []blockOp {
	var files []string
	for _, pat := range []string{"*.go", "pkg/tracing/*.go"} {
		m, _ := filepath.Glob(filepath.Join(c.repo, pat))
		for _, p := range m {
			if strings.HasSuffix(p, "_test.go") || verifOnly(p) {
				continue
			}
			rel, _ := filepath.Rel(c.repo, p)
			files = append(files, rel)
		}
	}
	sort.Strings(files)
	var ops []blockOp
	for _, rel := range files {
		f := c.parse(rel)
		if f == nil {
			continue
		}
		ops = append(ops, censusFile(c.fset, rel, f)...)
	}
	return ops
}

// chanMake: one make(chan T, cap) of the engine sources: where it is, what it is assigned to, its capacity (0 = none
// given, a computed capacity counts as 1)
type chanMake struct {
	File, Func, Name, Type string
	Cap                    int
}

func chanMakes(c *factsCtx) (out []chanMake) {
	ops := []string{}
	for _, pat := range []string{"*.go", "pkg/tracing/*.go"} {
		m, _ := filepath.Glob(filepath.Join(c.repo, pat))
		for _, p := range m {
			if strings.HasSuffix(p, "_test.go") || verifOnly(p) {
				continue
			}
			rel, _ := filepath.Rel(c.repo, p)
			ops = append(ops, rel)
		}
	}
	sort.Strings(ops)
	for _, rel := range ops {
		f := c.parse(rel)
		if f == nil {
			continue
		}
		for _, d := range f.Decls {
			fd, ok := d.(*ast.FuncDecl)
			if !ok || fd.Body == nil {
				continue
			}
			fname := fd.Name.Name
			if fd.Recv != nil && len(fd.Recv.List) > 0 {
				fname = nodeText(c.fset, fd.Recv.List[0].Type) + "." + fname
			}
			asMake := func(e ast.Expr) (typ string, capv int, ok bool) {
				call, isCall := e.(*ast.CallExpr)
				if !isCall {
					return
				}
				id, isId := call.Fun.(*ast.Ident)
				if !isId || id.Name != "make" || len(call.Args) == 0 {
					return
				}
				ch, isCh := call.Args[0].(*ast.ChanType)
				if !isCh {
					return
				}
				typ = nodeText(c.fset, ch.Value)
				if len(call.Args) >= 2 {
					capv = 1
					if lit, isLit := call.Args[1].(*ast.BasicLit); isLit {
						fmt.Sscan(lit.Value, &capv)
					}
				}
				return typ, capv, true
			}
			base := func(e ast.Expr) string {
				for {
					switch x := e.(type) {
					case *ast.IndexExpr:
						e = x.X
					case *ast.SelectorExpr:
						return x.Sel.Name
					case *ast.Ident:
						return x.Name
					case *ast.StarExpr:
						e = x.X
					default:
						return nodeText(c.fset, e)
					}
				}
			}
			ast.Inspect(fd.Body, func(n ast.Node) bool {
				switch x := n.(type) {
				case *ast.AssignStmt:
					for i, r := range x.Rhs {
						if typ, capv, ok := asMake(r); ok && i < len(x.Lhs) {
							out = append(out, chanMake{rel, fname, base(x.Lhs[i]), typ, capv})
						}
					}
				case *ast.KeyValueExpr:
					if typ, capv, ok := asMake(x.Value); ok {
						out = append(out, chanMake{rel, fname, base(x.Key), typ, capv})
					}
				case *ast.ValueSpec:
					for i, r := range x.Values {
						if typ, capv, ok := asMake(r); ok && i < len(x.Names) {
							out = append(out, chanMake{rel, fname, x.Names[i].Name, typ, capv})
						}
					}
				}
				return true
			})
		}
	}
	return
}

func init() {
	factGens = append(factGens, func(c *factsCtx) {
		mk := chanMakes(c)
		if len(mk) < 20 {
			c.fail("census: only %d channel creations found in the engine sources", len(mk))
			return
		}
		c.out.WriteString("(* channel creations of the root package and pkg/tracing: (file|function|assigned to|element type, capacity) (harness/census.go) *)\nDefinition chan_makes : list (string * string * nat) := [\n")
		for i, m := range mk {
			sep := ";"
			if i+1 == len(mk) {
				sep = ""
			}
			fmt.Fprintf(&c.out, "  (%s, %s, %d)%s\n", coqStr(m.File+"|"+m.Func+"|"+m.Type), coqStr(m.Name), m.Cap, sep)
		}
		c.out.WriteString("].\n\n")
	})
	// facts: the census as a Coq list (key, has an alternative that fires on cancellation)
	factGens = append(factGens, func(c *factsCtx) {
		ops := censusAll(c)
		if len(ops) < 50 {
			c.fail("census: only %d blocking operations found in the engine sources", len(ops))
			return
		}
		c.out.WriteString("(* blocking channel operations of the root package and pkg/tracing (harness/census.go) *)\nDefinition blocking_ops : list (string * bool) := [\n")
		for i, o := range ops {
			g := "false"
			if o.Kind == "select-guarded" {
				g = "true"
			}
			sep := ";"
			if i+1 == len(ops) {
				sep = ""
			}
			fmt.Fprintf(&c.out, "  (%s, %s)%s\n", coqStr(o.Key()), g, sep)
		}
		c.out.WriteString("].\n\n")
	})
	commands["census"] = func(env *Env) {
		c := &factsCtx{repo: env.Repo, fset: token.NewFileSet()}
		ops := censusAll(c)
		cnt := map[string]int{}
		for _, o := range ops {
			cnt[o.Kind]++
			if o.Kind != "select-guarded" {
				fmt.Println(o.Key())
			}
		}
		fmt.Fprintln(os.Stderr, cnt)
	}
}
