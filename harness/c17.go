package main

import (
	"context"
	"fmt"
	"go/token"
	"os"
	"os/exec"
	"path/filepath"
	"reflect"
	"regexp"
	"strings"
	"sync"
	"time"

	bpmn "github.com/olive-io/bpmn/v2"
)

func init() { commands["c17"] = runC17 }

// C17: (static) the ownership census must satisfy the discipline — the same check Coq does on Gen/Facts.v, repeated
// here to name the offending field; (dynamic) the harness itself is rebuilt with the race detector and its
// engine-driving commands are run: no race report with a frame in /repo, no panic, no fatal error.
func runC17(env *Env) {
	rep := &Report{Property: "C17",
		Rule: "the harness rebuilt with -race runs its engine-driving commands (token game programs, event-based gateways incl. simultaneous alternatives, cancellation sweep, boundary events incl. answer/event races, catch events, sub-processes, process sets, completion waits incl. concurrent waiters, concurrent Do): task answers, event deliveries, subscriptions, variable reads and completion waits come from many goroutines; a run counts as non-trivial when it drives concurrency from more than one goroutine (all but c12); distinct by (command, seed)"}
	c := &factsCtx{repo: env.Repo, fset: token.NewFileSet()}
	fields, accs := ownershipCensus(c)
	for _, v := range ownershipViolations(fields, accs) {
		rep.Violate("C17-ownership", "source census", v)
	}
	for _, a := range globalMapCensus(c) {
		if !a.OK {
			rep.Violate("C17-ownership", "source census", fmt.Sprintf("package-level map %s is touched by %s (write=%v) without the lock it needs", a.Var, a.Func, a.Write))
		}
	}
	captured := capturedCensus(c)
	for _, a := range captured {
		if !a.OK {
			rep.Violate("C17-ownership", "source census", fmt.Sprintf("captured local %s is shared with function literals, modified after they exist, and accessed in %s (write=%v) without a lock", a.Var, a.Context, a.Write))
		}
	}
	for _, a := range runStartCensus(c) {
		if a.Class >= 9 {
			rep.Violate("C17-ownership", "source census", fmt.Sprintf("the run loop %s.run is started in %s without a guard against a second start (sync.Once, constructor, compare-and-swap): two owner goroutines may share the value's plain fields", a.Type, a.Func))
		}
	}
	rep.Notes = append(rep.Notes, fmt.Sprintf("captured-locals census: %d accesses of shared, late-modified locals", len(captured)))
	rep.Notes = append(rep.Notes, fmt.Sprintf("ownership census: %d fields of goroutine-owning types, %d accesses", len(fields), len(accs)))

	raceBin, _ := filepath.Abs(filepath.Join(filepath.Dir(env.Out), "bpmnverif_race"))
	build := exec.Command("go", "build", "-race", "-tags", "verif", "-o", raceBin, ".")
	build.Dir = "harness"
	build.Env = os.Environ()
	if out, err := build.CombinedOutput(); err != nil {
		rep.Violate("C17-build", "go build -race", fmt.Sprintf("%v: %s", err, string(out)))
		env.WriteReport(rep)
		return
	}
	subs := []string{"c17conc", "c06", "c10", "c11", "c07", "c18", "c02", "c08", "c12", "c01"}
	seeds := []int64{env.Seed}
	tier := "quick"
	if env.Thorough() {
		seeds = []int64{env.Seed, env.Seed + 1, env.Seed + 2}
		subs = append(subs, "c05", "c03", "c04", "c09", "c13")
	}
	raceRe := regexp.MustCompile(`(?s)WARNING: DATA RACE.*?==================`)
	var items []string
	for _, sub := range subs {
		for _, seed := range seeds {
			if rep.Saturated() {
				break
			}
			cs := fmt.Sprintf("%s under the race detector (tier %s, seed %d)", sub, tier, seed)
			env.Current(cs)
			out := filepath.Join(env.Out, "race_"+sub)
			os.MkdirAll(out, 0o755)
			cmd := exec.Command(raceBin, sub, "-tier", tier, "-seed", fmt.Sprint(seed), "-out", out, "-repo", env.Repo)
			cmd.Env = append(os.Environ(), "GORACE=halt_on_error=0 exitcode=0")
			done := make(chan struct{})
			var outb []byte
			go func() { outb, _ = cmd.CombinedOutput(); close(done) }()
			select {
			case <-done:
			case <-time.After(20 * time.Minute):
				cmd.Process.Kill()
				<-done
				rep.Violate("C17-hang", cs, "the run did not finish in 20 minutes")
			}
			text := string(outb)
			rep.Evaluations++
			rep.Count(sub)
			if sub != "c12" {
				rep.Nontrivial++
			}
			races, panics := 0, 0
			for _, r := range raceRe.FindAllString(text, -1) {
				if strings.Contains(r, env.Repo+"/") {
					races++
					if races <= 2 {
						rep.Violate("C17-race", cs, "data race with engine frames:\n"+firstLines(r, 40))
					}
				} else if races == 0 {
					rep.Notes = append(rep.Notes, "race report without engine frames (harness-only) in "+sub)
				}
			}
			for _, line := range strings.Split(text, "\n") {
				if strings.HasPrefix(line, "C17CONC-VIOLATION: ") {
					panics++
					rep.Violate("C17-outcome", cs, strings.TrimPrefix(line, "C17CONC-VIOLATION: "))
				}
			}
			for _, marker := range []string{"\npanic: ", "\nfatal error: "} {
				if i := strings.Index(text, marker); i >= 0 {
					panics++
					rep.Violate("C17-panic", cs, firstLines(text[i:], 40))
				}
			}
			items = append(items, fmt.Sprintf("(%d,%d)", races, panics))
		}
	}
	env.WriteCases(rep, "", "Corr.C17corr", "nat * nat", items, "c17_mismatches")
	env.WriteReport(rep)
}

func firstLines(s string, n int) string {
	l := strings.Split(s, "\n")
	if len(l) > n {
		l = l[:n]
	}
	return strings.Join(l, "\n")
}

// c17conc: the "concurrent use" driver of the property — one instance (a loop of a task that writes a data
// object and variables), while other goroutines read variables and data objects, subscribe and unsubscribe,
// deliver events and wait for completion.  Meant to run under the race detector (C17 runs it); without it only a
// crash is noticed.
func init() {
	commands["c17conc"] = func(env *Env) {
		rep := &Report{Property: "C17conc", Rule: "see c17"}
		rounds := 3
		for r := 0; r < rounds; r++ {
			p := &Prog{}
			p.Node("start", "start")
			p.Node("xor", "M")
			t := p.Node("task", "T")
			t.Results = []string{"again", "n"}
			t.Ext = `<olive:dataOutput name="out" targetRef="obj"/>`
			x := p.Node("xor", "X")
			p.Node("end", "end")
			p.Flow("start", "M", "")
			p.Flow("M", "T", "")
			p.Flow("T", "X", "")
			p.Flow("X", "M", "again")
			x.Default = p.Flow("X", "end", "").ID
			defs, err := ParseDefs(p.XML(`<bpmn:signal id="s0" name="s0"/>`))
			must(err)
			// every other round the instance starts without any variable (the first answer stores the first ones)
			opt := InstOpt{Vars: map[string]any{"again": true, "n": 0}}
			if r%2 == 1 {
				opt = InstOpt{}
			}
			in, err := StartInst(defs, opt)
			must(err)
			stop := make(chan struct{})
			var wg sync.WaitGroup
			reader := func(f func()) {
				wg.Add(1)
				go func() {
					defer wg.Done()
					for {
						select {
						case <-stop:
							return
						default:
							f()
						}
					}
				}()
			}
			loc := in.P.Locator()
			reader(func() {
				n := 0
				for range loc.CloneVariables() { // a reader looks at what it was given
					n++
				}
				_ = n
			})
			reader(func() { loc.GetVariable("n") })
			reader(func() { loc.CloneItems(".") })
			reader(func() { loc.CloneItems("$"); loc.CloneItems("#") })
			reader(func() {
				ch := in.P.Tracer().Subscribe()
				time.Sleep(200 * time.Microsecond)
				in.P.Tracer().Unsubscribe(ch)
			})
			reader(func() { in.Signal("s0"); time.Sleep(100 * time.Microsecond) })
			reader(func() {
				c, cc := context.WithTimeout(context.Background(), time.Millisecond)
				in.P.WaitUntilComplete(c)
				cc()
			})
			// many tokens evaluating conditions nobody has compiled before, at the same time (a second instance)
			{
				q := &Prog{}
				q.Node("start", "start")
				q.Node("par", "F")
				q.Node("end", "end")
				q.Flow("start", "F", "")
				for bi := 0; bi < 8; bi++ {
					xn := fmt.Sprintf("X%d", bi)
					xg := q.Node("xor", xn)
					q.Flow("F", xn, "")
					for ci := 0; ci < 3; ci++ {
						// padded as in an indented document
						q.Flow(xn, "end", fmt.Sprintf("\n          n + %d == %d\n        ", r*1000+bi*10+ci, -1-ci))
					}
					xg.Default = q.Flow(xn, "end", "").ID
				}
				qd, err := ParseDefs(q.XML(""))
				must(err)
				qref, err := ParseDefs(q.XML("")) // a second parse of the same text, never run
				must(err)
				// several instances of the one parsed document, started together: its definitions are shared
				var qis []*Inst
				var qmu sync.Mutex
				var qwg sync.WaitGroup
				for k := 0; k < 3; k++ {
					qwg.Add(1)
					go func() {
						defer qwg.Done()
						qi, err := StartInst(qd, InstOpt{Vars: map[string]any{"n": 1}})
						must(err)
						qmu.Lock()
						qis = append(qis, qi)
						qmu.Unlock()
					}()
				}
				qwg.Wait()
				for _, qi := range qis {
					qi.WaitCease(tmoStep)
					if countEv(qi.Log(), "error", "*") > 0 {
						rep.Violate("C17-outcome", fmt.Sprintf("round %d", r), "error traces while evaluating conditions concurrently; log: "+logString(qi.Log()))
					}
					qi.Close()
				}
				// running instances reads the shared definitions only
				if !reflect.DeepEqual(qd, qref) {
					rep.Violate("C17-outcome", fmt.Sprintf("round %d", r), "running instances changed the parsed document they share: it differs from a second parse of the same text")
				}
			}
			for i := 0; i < 40; i++ {
				tt := in.WaitTask("T", tmoStep)
				if tt == nil {
					rep.Violate("C17-stuck", fmt.Sprintf("round %d", r), "task not requested; log: "+logString(in.Log()))
					break
				}
				tt.Do(bpmn.DoWithResults(map[string]any{"again": i < 39, "n": i}), bpmn.DoWithObjects(map[string]any{"out": i}))
			}
			in.WaitCease(tmoStep)
			close(stop)
			wg.Wait()
			in.Close()
			rep.Evaluations++
		}
		threeTokensOneTask(env, rep, "C17-outcome", 3)
		for _, v := range rep.Violations {
			fmt.Printf("C17CONC-VIOLATION: %s | %s | %s\n", v.Key, v.Case, strings.ReplaceAll(firstLines(v.Detail, 3), "\n", " "))
		}
		env.WriteReport(rep)
	}
}
