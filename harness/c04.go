package main

import (
	"github.com/olive-io/bpmn/v2/pkg/tracing"
	"github.com/olive-io/bpmn/schema"
	"sync/atomic"
	"context"
	"github.com/olive-io/bpmn/v2/pkg/data"
	bpmn "github.com/olive-io/bpmn/v2"
	"fmt"
	"strings"
	"sync"
	"time"
)

func init() { commands["c04"] = runC04 }

// start -> F(par 1->k) -> P_i -> Xm(xor merge) -> S(xor split) -> B_j -> end
// conds[j] is the truth value of flow j's condition; dflt = index of default flow or -1.
func c04Prog(conds []int, dflt, k int, lang string) *Prog {
	p := &Prog{}
	p.Node("start", "start")
	p.Node("par", "F")
	for i := 0; i < k; i++ {
		p.Node("task", fmt.Sprintf("P%d", i))
	}
	p.Node("xor", "Xm")
	s := p.Node("xor", "S")
	for j := range conds {
		p.Node("task", fmt.Sprintf("B%d", j))
	}
	p.Node("end", "end")
	p.Flow("start", "F", "")
	for i := 0; i < k; i++ {
		p.Flow("F", fmt.Sprintf("P%d", i), "")
		p.Flow(fmt.Sprintf("P%d", i), "Xm", "")
	}
	p.Flow("Xm", "S", "")
	for j, c := range conds {
		cond := fmt.Sprintf("c%d", j)
		if lang == "xpath" {
			cond = "false()"
			if c != 0 {
				cond = "true()"
			}
		}
		if j == dflt && c == 2 { // default flow without a condition of its own
			cond = ""
		}
		f := p.Flow("S", fmt.Sprintf("B%d", j), cond)
		f.Lang = lang
		if j == dflt {
			s.Default = f.ID
		}
	}
	for j := range conds {
		p.Flow(fmt.Sprintf("B%d", j), "end", "")
	}
	return p
}

func c04Run(conds []int, dflt, k int, lang string) (obs []int, note string, log []Ev) {
	defs, err := ParseDefs(c04Prog(conds, dflt, k, lang).XML(""))
	must(err)
	vars := map[string]any{}
	for j, c := range conds {
		vars[fmt.Sprintf("c%d", j)] = c != 0
	}
	in, err := StartInst(defs, InstOpt{Vars: vars})
	must(err)
	defer in.Close()
	// take the k upstream requests, then answer them concurrently behind a barrier
	var wg sync.WaitGroup
	start := make(chan struct{})
	for i := 0; i < k; i++ {
		t := in.WaitTask(fmt.Sprintf("P%d", i), tmoStep)
		if t == nil {
			return []int{-1}, "upstream task not requested", in.Log()
		}
		wg.Add(1)
		go func() { defer wg.Done(); <-start; t.Do() }()
	}
	close(start)
	wg.Wait()
	bReq := func(l []Ev) int {
		c := 0
		for _, e := range l {
			if e.K == "task" && strings.HasPrefix(e.N, "B") {
				c++
			}
		}
		return c
	}
	gwErr := func(l []Ev) int {
		c := 0
		for _, e := range l {
			if e.K == "error" && strings.Contains(e.X, "ExclusiveNoEffectiveSequenceFlows") && strings.Contains(e.X, "`S`") {
				c++
			}
		}
		return c
	}
	ok := in.WaitUntil(tmoStep, func(l []Ev) bool { return bReq(l)+gwErr(l) >= k })
	if !ok {
		note = "fewer reactions than tokens"
	}
	time.Sleep(settle)
	l := in.Log()
	per := make([]int, len(conds))
	for _, e := range l {
		if e.K == "task" && strings.HasPrefix(e.N, "B") {
			var j int
			fmt.Sscanf(e.N, "B%d", &j)
			per[j]++
		}
	}
	chosen, best := len(conds), 0
	for j, c := range per {
		if c > best {
			chosen, best = j, c
		}
	}
	obs = []int{chosen, best, bReq(l) - best, gwErr(l)}
	// other error traces are a finding of their own
	for _, e := range l {
		if e.K == "error" && !strings.Contains(e.X, "ExclusiveNoEffectiveSequenceFlows") {
			note += " unexpected error trace: " + e.X
		}
	}
	if gwErr(l) == 0 {
		for j := range conds {
			for in.Answer(fmt.Sprintf("B%d", j), time.Millisecond) {
			}
		}
		if !in.WaitCease(tmoStep) {
			note += " instance did not complete"
		}
	}
	return obs, note, in.Log()
}

// direct oracle: first true non-default flow in list order, else default, else error
func c04Expect(conds []int, dflt, k int) []int {
	for j, c := range conds {
		if j != dflt && c != 0 {
			return []int{j, k, 0, 0}
		}
	}
	if dflt >= 0 {
		return []int{dflt, k, 0, 0}
	}
	return []int{len(conds), 0, 0, k}
}

func runC04(env *Env) {
	rep := &Report{Property: "C04",
		Rule: "exclusive split with c conditional flows (c in 1..C), default absent or inserted at every list position (with a false, true or no condition of its own), all 2^c truth assignments, k tokens arriving concurrently (answers released behind a barrier), expression languages expr (variables) and XPath (constants); non-trivial = at least two true conditions, or default present, or k>1; distinct by the tuple"}
	C := 3
	ks := []int{1, 3}
	if env.Thorough() {
		C = 4
		ks = []int{1, 2, 3}
	}
	var items []string
	for _, lang := range []string{"", "xpath"} {
		for c := 1; c <= C; c++ {
			for dpos := -1; dpos <= c; dpos++ {
				for bits := 0; bits < 1<<c; bits++ {
					for _, k := range ks {
						if rep.Saturated() {
							continue
						}
						// build the flow list: conditional flows with the default inserted at dpos
						conds := []int{}
						b := 0
						n := c
						if dpos >= 0 {
							n = c + 1
						}
						for j := 0; j < n; j++ {
							if j == dpos {
								conds = append(conds, (bits+k+c)%3) // default's own condition: false/true/none
							} else {
								conds = append(conds, (bits>>b)&1)
								b++
							}
						}
						if lang == "" && dpos >= 0 && conds[dpos] == 2 {
							// expr variant: a variable bound to `true`; the no-condition case is the same for the engine
						}
						env.Current(fmt.Sprintf("lang=%q conds=%v default=%d tokens=%d", lang, conds, dpos, k))
						obs, note, log := c04Run(conds, dpos, k, lang)
						rep.Evaluations++
						rep.Count(fmt.Sprintf("lang=%s_c%d_k%d", map[string]string{"": "expr", "xpath": "xpath"}[lang], c, k))
						ntrue := 0
						for j, v := range conds {
							if j != dpos && v != 0 {
								ntrue++
							}
						}
						if ntrue >= 2 || dpos >= 0 || k > 1 {
							rep.Nontrivial++
						}
						cs := fmt.Sprintf("lang=%q conds=%v default=%d tokens=%d", lang, conds, dpos, k)
						exp := c04Expect(conds, dpos, k)
						if fmt.Sprint(exp) != fmt.Sprint(obs) || note != "" {
							rep.Violate("C04-choice", cs, fmt.Sprintf("expected [branch,requests,elsewhere,errors]=%v observed %v %s; log: %s", exp, obs, note, logString(log)))
						}
						d := dpos
						if d < 0 {
							d = len(conds)
						}
						items = append(items, fmt.Sprintf("(%s,%d,%d,%s)", natList(conds), d, k, natList(obs)))
						if ntrue >= 2 && dpos >= 0 && k > 1 {
							rep.Sample(cs + " -> [branch,requests,elsewhere,errors]=" + fmt.Sprint(obs))
						}
					}
				}
			}
		}
	}
	env.WriteCases(rep, "", "Corr.C04corr", "list nat * nat * nat * list nat", items, "c04_mismatches")
	rep.Exhaustive = true
	// ONE decision per token: the variables change right after the gateway's probe (a locator that flips the
	// variable after the conditions have been read once) — the token still leaves on the flow that was chosen
	for _, nFlows := range []int{1, 2, 3} {
		if rep.Saturated() {
			break
		}
		cs := fmt.Sprintf("%d conditional flows + default; the chosen condition turns false right after the probe", nFlows)
		env.Current(cs)
		p := &Prog{}
		p.Node("start", "start")
		sx := p.Node("xor", "S")
		p.Flow("start", "S", "")
		vars := map[string]any{}
		for j := 0; j < nFlows; j++ {
			b := fmt.Sprintf("B%d", j)
			p.Node("task", b)
			p.Flow("S", b, fmt.Sprintf("c%d", j))
			p.Node("end", "e"+b)
			p.Flow(b, "e"+b, "")
			vars[fmt.Sprintf("c%d", j)] = j == nFlows-1 // only the last condition holds
		}
		p.Node("task", "D")
		p.Node("end", "eD")
		sx.Default = p.Flow("S", "D", "").ID
		p.Flow("D", "eD", "")
		defs, err := ParseDefs(p.XML(""))
		must(err)
		base := data.NewFlowDataLocator()
		for k, v := range vars {
			base.SetVariable(k, v)
		}
		fl := &flipLocator{IFlowDataLocator: base, after: nFlows, key: fmt.Sprintf("c%d", nFlows-1)}
		in, err := StartInst(defs, InstOpt{Opts: []bpmn.Option{bpmn.WithLocator(fl)}})
		must(err)
		rep.Evaluations++
		rep.Nontrivial++
		rep.Count("decision_once")
		want := fmt.Sprintf("B%d", nFlows-1)
		in.WaitUntil(2*time.Second, func(l []Ev) bool { return countEv(l, "task", "*") > 0 || countEv(l, "error", "*") > 0 })
		time.Sleep(5 * time.Millisecond)
		l := in.Log()
		if countEv(l, "task", want) != 1 || countEv(l, "task", "*") != 1 || countEv(l, "error", "*") != 0 {
			rep.Violate("C04-one-decision", cs, fmt.Sprintf("expected exactly one request, of %s; log: %s", want, logString(l)))
		}
		in.Close()
	}
	// CURRENT values: a token passes one exclusive gateway, waits at a task, and reaches a second one; in between the
	// variable the second gateway reads is changed — by the task result of a token in a parallel branch, or by the host
	// through the locator; the second gateway decides on the values at the time the token reaches it
	for _, how := range []string{"other token's task result", "host SetVariable", "own task result"} {
		for _, newMode := range []bool{true, false} {
			if rep.Saturated() {
				break
			}
			cs := fmt.Sprintf("two exclusive gateways on one token's path; the second one's variable is set to %v by: %s", newMode, how)
			env.Current(cs)
			p := &Prog{}
			p.Node("start", "start")
			p.Node("par", "F")
			p.Flow("start", "F", "")
			g1 := p.Node("xor", "G1")
			p.Flow("F", "G1", "")
			p.Node("task", "W")
			p.Flow("G1", "W", "a")
			p.Node("task", "N")
			g1.Default = p.Flow("G1", "N", "").ID
			p.Node("end", "eN")
			p.Flow("N", "eN", "")
			g2 := p.Node("xor", "G2")
			p.Flow("W", "G2", "")
			p.Node("task", "Y")
			p.Node("task", "Z")
			p.Flow("G2", "Y", "m")
			g2.Default = p.Flow("G2", "Z", "").ID
			p.Node("end", "eY")
			p.Node("end", "eZ")
			p.Flow("Y", "eY", "")
			p.Flow("Z", "eZ", "")
			pn := p.Node("task", "P")
			pn.Results = []string{"m"}
			p.Flow("F", "P", "")
			p.Node("end", "eP")
			p.Flow("P", "eP", "")
			for _, n := range p.Nodes {
				if n.ID == "W" {
					n.Results = []string{"m"}
				}
			}
			defs, err := ParseDefs(p.XML(""))
			must(err)
			in, err := StartInst(defs, InstOpt{Vars: map[string]any{"a": true, "m": !newMode}})
			must(err)
			rep.Evaluations++
			rep.Nontrivial++
			rep.Count("current_values")
			ok := in.WaitUntil(tmoStep, func(l []Ev) bool { return countEv(l, "task", "W") >= 1 && countEv(l, "task", "P") >= 1 })
			if !ok {
				rep.Violate("C04-current-values", cs, "W and P were not both requested; log: "+logString(in.Log()))
				in.Close()
				continue
			}
			switch how {
			case "other token's task result":
				in.Answer("P", tmoStep, bpmn.DoWithResults(map[string]any{"m": newMode}))
				in.WaitUntil(tmoStep, func(l []Ev) bool { return countEv(l, "complete", "eP") >= 1 })
				in.Answer("W", tmoStep)
			case "host SetVariable":
				in.P.Locator().SetVariable("m", newMode)
				in.Answer("W", tmoStep)
			default:
				in.Answer("W", tmoStep, bpmn.DoWithResults(map[string]any{"m": newMode}))
			}
			want := "Z"
			if newMode {
				want = "Y"
			}
			in.WaitUntil(tmoStep, func(l []Ev) bool { return countEv(l, "task", "Y")+countEv(l, "task", "Z") >= 1 })
			time.Sleep(5 * time.Millisecond)
			l := in.Log()
			if countEv(l, "task", want) != 1 || countEv(l, "task", "Y")+countEv(l, "task", "Z") != 1 || countEv(l, "error", "*") != 0 {
				rep.Violate("C04-current-values", cs, fmt.Sprintf("the second gateway must route the token to %s only; log: %s", want, logString(l)))
			}
			in.Close()
		}
	}
	// many instances of one document at the same time, each with its own value: every token is routed by ITS conditions
	// (start -> exclusive gateway -> end_i guarded by want == i, four ways, no default)
	// tokens = 1: one token per instance; tokens = 3: a fork sends three tokens into the gateway at the same moment
	// (their ids drawn one right after the other), every one of them routed on its own
	for _, tokens := range []int{1, 3} {
		p := &Prog{}
		p.Node("start", "start")
		p.Node("xor", "S")
		if tokens == 1 {
			p.Flow("start", "S", "")
		} else {
			p.Node("par", "F")
			p.Flow("start", "F", "")
			for i := 0; i < tokens; i++ {
				p.Flow("F", "S", "")
			}
		}
		for i := 0; i < 4; i++ {
			p.Node("end", fmt.Sprintf("e%d", i))
			cond := fmt.Sprintf("want == %d", i)
			if tokens > 1 {
				cond = fmt.Sprintf("want < 0 or (want * 2 + 1 > 10 and want %% 2 == 0) or (want > 100 and want - %d > 7) or want == %d", i, i)
			}
			p.Flow("S", fmt.Sprintf("e%d", i), cond)
		}
		defs, err := ParseDefs(p.XML(""))
		must(err)
		instances := 2400 / tokens
		if env.Thorough() {
			instances = 24000 / tokens
		}
		cs := fmt.Sprintf("%d instances of start -> exclusive gateway -> 4 end events guarded by want == i, 12 at a time, each with its own value of want, %d token(s) per instance, ids from the engine's default generator in every other instance", instances, tokens)
		env.Current(cs)
		var procElem *schema.Process
		for i := range *defs.Processes() {
			procElem = &(*defs.Processes())[i]
		}
		var next, wrong int64
		var first atomic.Value
		var wg sync.WaitGroup
		for w := 0; w < 12; w++ {
			wg.Add(1)
			go func() {
				defer wg.Done()
				for {
					k := atomic.AddInt64(&next, 1)
					if k > int64(instances) {
						return
					}
					want := int(k % 4)
					ctx, cancel := context.WithCancel(context.Background())
					opts := []bpmn.Option{bpmn.WithContext(ctx), bpmn.WithVariables(map[string]any{"want": want})}
					if k%8 < 4 {
						opts = append(opts, bpmn.WithIdGenerator(sharedGen))
					}
					inst, err := bpmn.NewProcess(procElem, defs, opts...)
					must(err)
					ch := inst.Tracer().SubscribeChannel(make(chan tracing.ITrace, 128))
					must(inst.StartAll(ctx))
					got := []string{}
					deadline := time.After(3 * time.Second)
				loop:
					for {
						select {
						case tr, ok := <-ch:
							if !ok {
								break loop
							}
							switch t := tracing.Unwrap(tr).(type) {
							case bpmn.VisitTrace:
								if id := nodeId(t.Node); strings.HasPrefix(id, "e") {
									got = append(got, id)
								}
							case bpmn.ErrorTrace:
								got = append(got, "error")
							case bpmn.CeaseFlowTrace:
								break loop
							}
						case <-deadline:
							got = append(got, "timeout")
							break loop
						}
					}
					cancel()
					good := len(got) == tokens
					for _, g := range got {
						good = good && g == fmt.Sprintf("e%d", want)
					}
					if !good {
						atomic.AddInt64(&wrong, 1)
						first.CompareAndSwap(nil, fmt.Sprintf("want = %d: reached %v", want, got))
					}
				}
			}()
		}
		wg.Wait()
		rep.Evaluations++
		rep.Nontrivial++
		rep.Count("concurrent_instances")
		if wrong > 0 {
			rep.Violate("C04-choice", cs, fmt.Sprintf("%d instances were not routed by their own conditions, e.g. %v", wrong, first.Load()))
		}
	}
	// instances one after the other whose variables differ in which names exist and of which type: each is routed by
	// its own variables alone, whatever the instances before it had
	{
		p := &Prog{}
		p.Node("start", "start")
		x := p.Node("xor", "S")
		for i := 0; i < 3; i++ {
			p.Node("end", fmt.Sprintf("e%d", i))
		}
		p.Flow("start", "S", "")
		p.Flow("S", "e0", "zzVip == true")
		p.Flow("S", "e1", `zzTier == "gold"`)
		x.Default = p.Flow("S", "e2", "").ID
		xmlText := p.XML("")
		type kind struct {
			name string
			vars map[string]any
			want string
		}
		kinds := []kind{
			{"no variables", map[string]any{}, "e2"},
			{"zzVip = true", map[string]any{"zzVip": true}, "e0"},
			{"zzTier = 5", map[string]any{"zzTier": 5}, "e2"},
			{"zzTier = gold", map[string]any{"zzTier": "gold"}, "e1"},
			{"zzVip = false, zzTier = gold", map[string]any{"zzVip": false, "zzTier": "gold"}, "e1"},
		}
		// a second document: the true condition is not the first one the token evaluates and compares a variable with a
		// literal of another type
		q := &Prog{}
		q.Node("start", "start")
		y := q.Node("xor", "S")
		for i := 0; i < 3; i++ {
			q.Node("end", fmt.Sprintf("e%d", i))
		}
		q.Flow("start", "S", "")
		q.Flow("S", "e0", "zzVip == true")
		q.Flow("S", "e1", `zzTier != "gold"`)
		y.Default = q.Flow("S", "e2", "").ID
		for _, k := range []kind{
			{"zzVip = false, zzTier = 5 (second document: zzTier != \"gold\" listed second)", map[string]any{"zzVip": false, "zzTier": 5}, "e1"},
			{"zzVip = false, zzTier = gold (second document)", map[string]any{"zzVip": false, "zzTier": "gold"}, "e2"},
			{"zzVip = false, zzTier = silver (second document)", map[string]any{"zzVip": false, "zzTier": "silver"}, "e1"},
		} {
			cs := "one instance: " + k.name
			env.Current(cs)
			defs, err := ParseDefs(q.XML(""))
			must(err)
			in, err := StartInst(defs, InstOpt{Vars: k.vars})
			must(err)
			rep.Evaluations++
			rep.Nontrivial++
			rep.Count("instances_with_different_variables")
			in.WaitCease(tmoStep)
			reached := []string{}
			for _, e := range in.Log() {
				if e.K == "visit" && strings.HasPrefix(e.N, "e") {
					reached = append(reached, e.N)
				}
			}
			if len(reached) != 1 || reached[0] != k.want {
				rep.Violate("C04-choice", cs, fmt.Sprintf("reached %v, expected [%s]; log: %s", reached, k.want, logString(in.Log())))
			}
			in.Close()
		}
		order := []int{0, 1, 0, 2, 3, 0, 4, 2, 1, 3, 0, 2, 4, 0, 3, 1, 2, 0}
		errsOf := map[int]int{}
		for step, ki := range order {
			if rep.Saturated() {
				break
			}
			k := kinds[ki]
			cs := fmt.Sprintf("instances one after the other with different variables: instance %d has %s (the ones before: %v)", step, k.name, order[:step])
			env.Current(cs)
			defs, err := ParseDefs(xmlText)
			must(err)
			in, err := StartInst(defs, InstOpt{Vars: k.vars})
			must(err)
			rep.Evaluations++
			rep.Nontrivial++
			rep.Count("instances_with_different_variables")
			in.WaitCease(tmoStep)
			l := in.Log()
			reached, errs := []string{}, 0
			for _, e := range l {
				if e.K == "visit" && strings.HasPrefix(e.N, "e") {
					reached = append(reached, e.N)
				}
				if e.K == "error" {
					errs++
				}
			}
			if len(reached) != 1 || reached[0] != k.want {
				rep.Violate("C04-choice", cs, fmt.Sprintf("reached %v, expected [%s]; log: %s", reached, k.want, logString(l)))
			} else if prev, seen := errsOf[ki]; seen && prev != errs {
				rep.Violate("C04-choice", cs, fmt.Sprintf("%d error traces, %d when an instance with the same variables ran before; log: %s", errs, prev, logString(l)))
			}
			if _, seen := errsOf[ki]; !seen {
				errsOf[ki] = errs
			}
			in.Close()
		}
	}
	env.WriteReport(rep)
}

// flipLocator hands out the variables unchanged `after` times, then turns `key` to false for good
type flipLocator struct {
	data.IFlowDataLocator
	mu    sync.Mutex
	reads int
	after int
	key   string
}

func (f *flipLocator) CloneVariables() map[string]data.IItem {
	f.mu.Lock()
	f.reads++
	flip := f.reads == f.after+1
	f.mu.Unlock()
	if flip {
		f.IFlowDataLocator.SetVariable(f.key, false)
	}
	return f.IFlowDataLocator.CloneVariables()
}
