package main

import (
	"github.com/olive-io/bpmn/schema"
	"sync/atomic"
	"math"
	"errors"
	"fmt"
	"sort"
	"strings"
	"sync"
	"time"

	bpmn "github.com/olive-io/bpmn/v2"
)

func init() { commands["c08"] = runC08 }

// start -> T (declared results r1 r2) -> X -(r1)-> A | default B -> end
func c08Prog() *Prog {
	p := &Prog{}
	p.Node("start", "start")
	t := p.Node("task", "T")
	t.Results = []string{"r1", "r2"}
	// a task definition with its own retry count: the count given with the error handler is the one that applies
	t.Ext = `<olive:taskDefinition type="service" retries="2"/>`
	x := p.Node("xor", "X")
	p.Node("task", "A")
	p.Node("task", "B")
	p.Node("end", "end")
	p.Flow("start", "T", "")
	p.Flow("T", "X", "")
	p.Flow("X", "A", "r1")
	x.Default = p.Flow("X", "B", "").ID
	p.Flow("A", "end", "")
	p.Flow("B", "end", "")
	return p
}

// (a) k Do calls on one request; all pass the done check before any sends (barrier inside a
// DoOption closure, which runs after the check and before the send); sends released in `order`.
func c08DoHistory(k int, order []int, concurrent bool) (effective int, returned int, reqT int, done bool, log []Ev) {
	defs, err := ParseDefs(c08Prog().XML(""))
	must(err)
	in, err := StartInst(defs, InstOpt{Vars: map[string]any{"r1": false, "r2": 0}})
	must(err)
	defer in.Close()
	tt := in.WaitTask("T", tmoStep)
	if tt == nil {
		return -1, 0, 0, false, in.Log()
	}
	var ret sync.WaitGroup
	var nret int32
	var mu sync.Mutex
	if concurrent {
		arrived := make(chan int, k)
		gates := make([]chan struct{}, k)
		for i := 0; i < k; i++ {
			gates[i] = make(chan struct{})
			ret.Add(1)
			go func(i int) {
				defer ret.Done()
				tt.Do(bpmn.DoWithResults(map[string]any{"r1": i == 0, "r2": 100 + i}), func(*bpmn.DoResponse) {
					arrived <- i
					<-gates[i]
				})
				mu.Lock()
				nret++
				mu.Unlock()
			}(i)
		}
		for i := 0; i < k; i++ {
			<-arrived
		}
		for _, p := range order {
			close(gates[p])
			time.Sleep(3 * time.Millisecond) // let this caller's send happen before the next is released
		}
	} else {
		for _, p := range order {
			ret.Add(1)
			func(i int) {
				defer ret.Done()
				tt.Do(bpmn.DoWithResults(map[string]any{"r1": i == 0, "r2": 100 + i}))
				mu.Lock()
				nret++
				mu.Unlock()
			}(p)
		}
	}
	fin := make(chan struct{})
	go func() { ret.Wait(); close(fin) }()
	select {
	case <-fin:
	case <-time.After(2 * time.Second):
	}
	mu.Lock()
	returned = int(nret)
	mu.Unlock()
	// downstream
	in.WaitUntil(tmoStep, func(l []Ev) bool { return countEv(l, "task", "A")+countEv(l, "task", "B") > 0 })
	for in.Answer("A", 5*time.Millisecond) || in.Answer("B", 5*time.Millisecond) {
	}
	done = in.WaitCease(tmoStep)
	effective = -1
	if v, ok := in.P.Locator().GetVariable("r2"); ok {
		if n, ok := v.(int64); ok && n >= 100 {
			effective = int(n - 100)
		}
	}
	return effective, returned, countEv(in.Log(), "task", "T"), done, in.Log()
}

// (b) declared-only filtering: supplied names -> final variables
func c08Results(supplied map[string]any, initial map[string]any) (final map[string]string, stuck string) {
	defs, err := ParseDefs(c08Prog().XML(""))
	must(err)
	in, err := StartInst(defs, InstOpt{Vars: initial})
	must(err)
	defer in.Close()
	tt := in.WaitTask("T", tmoStep)
	if tt == nil {
		return nil, "T not requested"
	}
	tt.Do(bpmn.DoWithResults(supplied))
	in.WaitUntil(tmoStep, func(l []Ev) bool { return countEv(l, "task", "A")+countEv(l, "task", "B") > 0 })
	for in.Answer("A", 5*time.Millisecond) || in.Answer("B", 5*time.Millisecond) {
	}
	if !in.WaitCease(tmoStep) {
		stuck = "instance did not complete"
	}
	final = map[string]string{}
	for k, v := range in.P.Locator().CloneVariables() {
		final[k] = fmt.Sprint(v.Value())
	}
	return
}

// (c) error modes: one answer per request of T
// answers: 0 ok, 1 error without handler, 2 skip, 3 exit, 10+r retry r (9 = retry -1)
var c08OkForms uint64

func c08Modes(answers []int) (requests, errTraces int, outcome int, log []Ev) {
	defs, err := ParseDefs(c08Prog().XML(""))
	must(err)
	in, err := StartInst(defs, InstOpt{Vars: map[string]any{"r1": false}})
	must(err)
	defer in.Close()
	outcome = 2 // waiting
	for i, a := range answers {
		ok := in.WaitUntil(tmoStep, func(l []Ev) bool { return countEv(l, "task", "T") > i })
		if !ok {
			break
		}
		tt := in.WaitTask("T", tmoStep)
		if tt == nil {
			break
		}
		switch {
		case a == 0:
			// an answer without error, in the forms a host may give it: a handler channel that comes along with
			// no error (empty, or with a mode queued for the case of a failure) changes nothing
			switch atomic.AddUint64(&c08OkForms, 1) % 4 {
			case 0:
				tt.Do()
			case 1:
				tt.Do(bpmn.DoWithErrHandle(nil, make(chan bpmn.ErrHandler, 1)))
			case 2:
				ch := make(chan bpmn.ErrHandler, 1)
				ch <- bpmn.ErrHandler{Mode: bpmn.ExitMode}
				tt.Do(bpmn.DoWithErrHandle(nil, ch))
			default:
				ch := make(chan bpmn.ErrHandler, 1)
				ch <- bpmn.ErrHandler{Mode: bpmn.RetryMode, Retries: 2}
				tt.Do(bpmn.DoWithErrHandle(nil, ch))
			}
		case a == 1:
			tt.Do(bpmn.DoWithErr(errors.New("boom")))
		default:
			ch := make(chan bpmn.ErrHandler, 1)
			h := bpmn.ErrHandler{}
			switch {
			case a == 2:
				h.Mode = bpmn.SkipMode
			case a == 3:
				h.Mode = bpmn.ExitMode
			case a == 9:
				h.Mode, h.Retries = bpmn.RetryMode, -1
			default:
				h.Mode, h.Retries = bpmn.RetryMode, int32(a-10)
			}
			ch <- h
			tt.Do(bpmn.DoWithErrHandle(errors.New("boom"), ch))
		}
		// what happens next: a new request of T, a downstream request, or completion
		in.WaitUntil(tmoStep, func(l []Ev) bool {
			return countEv(l, "task", "T") > i+1 || countEv(l, "task", "A")+countEv(l, "task", "B") > 0 || countEv(l, "cease", "*") > 0
		})
		l := in.Log()
		if countEv(l, "task", "A")+countEv(l, "task", "B") > 0 {
			outcome = 0
			break
		}
		if countEv(l, "cease", "*") > 0 {
			outcome = 1
			break
		}
	}
	time.Sleep(settle)
	log = in.Log()
	requests = countEv(log, "task", "T")
	for _, e := range log {
		if e.K == "error" && strings.Contains(e.X, "TaskExecError") {
			errTraces++
		}
	}
	if outcome == 2 && countEv(log, "task", "A")+countEv(log, "task", "B") > 0 {
		outcome = 0
	}
	return
}

func runC08(env *Env) {
	rep := &Report{Property: "C08",
		Rule: "(a) answer histories of one request: 1..3 Do calls, sequential and concurrent (all callers held after the done check by a barrier inside a DoOption closure, then released in every order), each carrying a distinguishable result; (b) supplied result names over {declared r1, declared r2, undeclared x, none} with prior variable values; (c) every list of up to 4 answers over {ok, error without handler, skip, exit, retry 0/1/2/-1}; non-trivial = more than one Do call, an undeclared name, or an error mode; distinct by history"}
	var aitems, bitems, citems []string
	// (a)
	for k := 1; k <= 3; k++ {
		for _, ord := range perms(k) {
			for _, conc := range []bool{false, true} {
				if rep.Saturated() {
					continue
				}
				cs := fmt.Sprintf("Do history: %d calls, send order %v, concurrent=%v", k, ord, conc)
				env.Current(cs)
				eff, ret, reqT, done, log := c08DoHistory(k, ord, conc)
				rep.Evaluations++
				rep.Count(fmt.Sprintf("do_k%d_conc%v", k, conc))
				if k > 1 {
					rep.Nontrivial++
				}
				if ret != k {
					rep.Violate("C08-do-blocks", cs, fmt.Sprintf("%d of %d Do calls returned", ret, k))
				}
				if eff != ord[0] {
					rep.Violate("C08-first-wins", cs, fmt.Sprintf("effective answer is caller %d's, first sender was %d; log: %s", eff, ord[0], logString(log)))
				}
				if reqT != 1 || !done {
					rep.Violate("C08-first-wins", cs, fmt.Sprintf("task requested %d times, completed=%v", reqT, done))
				}
				r := 0
				if ret == k {
					r = 1
				}
				aitems = append(aitems, fmt.Sprintf("(%d,%s,%d,%d)", k, natList(ord), eff+1, r))
				if k == 3 && conc {
					rep.Sample(fmt.Sprintf("%s -> effective caller %d, %d returned", cs, eff, ret))
				}
			}
		}
	}
	env.WriteCases(rep, "_do", "Corr.C08corr", "nat * list nat * nat * nat", aitems, "c08_do_mismatches")
	// (b)
	names := []string{"r1", "r2", "x"}
	for mask := 0; mask < 8; mask++ {
		for _, prior := range []bool{false, true} {
			supplied := map[string]any{}
			sup := []string{}
			for i, n := range names {
				if mask&(1<<i) != 0 {
					supplied[n] = 40 + i
					sup = append(sup, fmt.Sprintf("(%d,%d)", i, 40+i))
				}
			}
			initial := map[string]any{"r1": false}
			ini := []string{}
			if prior {
				initial = map[string]any{"r1": 7, "r2": 8, "x": 9}
				ini = []string{"(0,7)", "(1,8)", "(2,9)"}
			} else {
				initial = map[string]any{"r1": 0}
				ini = []string{"(0,0)"}
			}
			cs := fmt.Sprintf("results supplied=%v prior=%v (declared: r1 r2)", supplied, initial)
			env.Current(cs)
			final, stuck := c08Results(supplied, initial)
			rep.Evaluations++
			rep.Nontrivial++
			rep.Count("results")
			if stuck != "" {
				rep.Violate("C08-results", cs, stuck)
			}
			// direct oracle
			for i, n := range names {
				want, has := "", false
				if v, ok := initial[n]; ok {
					want, has = fmt.Sprint(v), true
				}
				if _, ok := supplied[n]; ok && i < 2 {
					want, has = fmt.Sprint(40+i), true
				}
				got, ok := final[n]
				if ok != has || got != want {
					rep.Violate("C08-results", cs, fmt.Sprintf("variable %s = %q (present=%v), expected %q (present=%v)", n, got, ok, want, has))
				}
			}
			obs := []string{}
			keys := []string{}
			for k := range final {
				keys = append(keys, k)
			}
			sort.Strings(keys)
			for _, k := range keys {
				for i, n := range names {
					if n == k {
						var v int
						fmt.Sscan(final[k], &v)
						obs = append(obs, fmt.Sprintf("(%d,%d)", i, v))
					}
				}
			}
			bitems = append(bitems, fmt.Sprintf("([%s],[%s],[%s])", strings.Join(sup, ";"), strings.Join(ini, ";"), strings.Join(obs, ";")))
		}
	}
	env.WriteCases(rep, "_results", "Corr.C08corr", "list (nat * nat) * list (nat * nat) * list (nat * nat)", bitems, "c08_results_mismatches")
	// (c)
	alphabet := []int{0, 1, 2, 3, 10, 11, 12, 9}
	maxLen := 3
	if env.Thorough() {
		maxLen = 4
	}
	var rec func(h []int)
	rec = func(h []int) {
		if len(h) > 0 && !rep.Saturated() {
			cs := fmt.Sprintf("answers per request %v (0 ok, 1 error/no handler, 2 skip, 3 exit, 10+r retry r, 9 retry -1)", h)
			env.Current(cs)
			req, errs, out, log := c08Modes(h)
			rep.Evaluations++
			rep.Nontrivial++
			rep.Count(fmt.Sprintf("modes_len%d", len(h)))
			citems = append(citems, fmt.Sprintf("(%s,%d,%d,%d)", natList(h), req, errs, out))
			// direct oracle (the property's own words)
			if msg := c08ModeOracle(h, req, errs, out); msg != "" {
				rep.Violate("C08-modes", cs, msg+"; log: "+logString(log))
			}
			if len(h) == 3 && h[0] >= 10 {
				rep.Sample(fmt.Sprintf("%s -> %d requests, %d error traces, outcome %d", cs, req, errs, out))
			}
		}
		if len(h) == maxLen {
			return
		}
		// only extend histories whose last answer leads to another request
		if len(h) > 0 {
			last := h[len(h)-1]
			if last < 9 {
				return
			}
		}
		for _, a := range alphabet {
			rec(append(append([]int{}, h...), a))
		}
	}
	rec(nil)
	// two tokens pending in one task: the answers (results, error, handler decision) of one request must not
	// leak into the other's. Token 1 answers with an error whose handler decides later; token 2 answers with
	// r = "two"; the next task sets r = "three"; then the handler says skip: r must stay "three".
	for _, mode := range []bpmn.ErrHandleMode{bpmn.SkipMode, bpmn.ExitMode} {
		if rep.Saturated() {
			break
		}
		cs := fmt.Sprintf("two requests pending in one task; first: error with a handler deciding %v after the second was answered with results", mode)
		env.Current(cs)
		p := &Prog{}
		p.Node("start", "start")
		p.Node("par", "F")
		t := p.Node("task", "T")
		t.Results = []string{"r"}
		u := p.Node("task", "U")
		u.Results = []string{"r"}
		p.Node("end", "end")
		p.Flow("start", "F", "")
		p.Flow("F", "T", "")
		p.Flow("F", "T", "")
		p.Flow("T", "U", "")
		p.Flow("U", "end", "")
		defs, err := ParseDefs(p.XML(""))
		must(err)
		in, err := StartInst(defs, InstOpt{Vars: map[string]any{"r": "zero"}})
		must(err)
		rep.Evaluations++
		rep.Nontrivial++
		rep.Count("two_pending_requests")
		if !in.WaitUntil(tmoStep, func(l []Ev) bool { return countEv(l, "task", "T") >= 2 }) {
			rep.Violate("C08-results", cs, "the task was not requested twice; log: "+logString(in.Log()))
			in.Close()
			continue
		}
		t1 := in.WaitTask("T", tmoStep)
		t2 := in.WaitTask("T", tmoStep)
		ch := make(chan bpmn.ErrHandler, 1)
		t1.Do(bpmn.DoWithErrHandle(errors.New("boom"), ch))
		in.WaitUntil(tmoStep, func(l []Ev) bool { return countEv(l, "error", "*") >= 1 })
		t2.Do(bpmn.DoWithResults(map[string]any{"r": "two"}))
		if !in.WaitUntil(tmoStep, func(l []Ev) bool { return countEv(l, "task", "U") >= 1 }) {
			rep.Violate("C08-results", cs, "the second request's answer did not continue; log: "+logString(in.Log()))
			in.Close()
			continue
		}
		u1 := in.WaitTask("U", tmoStep)
		u1.Do(bpmn.DoWithResults(map[string]any{"r": "three"}))
		in.WaitUntil(tmoStep, func(l []Ev) bool { return countEv(l, "leave", "U") >= 1 })
		ch <- bpmn.ErrHandler{Mode: mode}
		wantU := 1
		if mode == bpmn.SkipMode {
			wantU = 2
			if in.WaitUntil(tmoStep, func(l []Ev) bool { return countEv(l, "task", "U") >= 2 }) {
				if u2 := in.WaitTask("U", tmoStep); u2 != nil {
					u2.Do()
				}
			}
		}
		done := in.WaitCease(tmoStep)
		time.Sleep(settle)
		v, _ := in.P.Locator().GetVariable("r")
		if fmt.Sprint(v) != "three" {
			rep.Violate("C08-results", cs, fmt.Sprintf("variable r = %q at the end, expected \"three\": the skipped/exited request stored results that were not its own; log: %s", fmt.Sprint(v), logString(in.Log())))
		}
		if got := countEv(in.Log(), "task", "U"); got != wantU || !done {
			rep.Violate("C08-modes", cs, fmt.Sprintf("next task requested %d times (expected %d), completed=%v; log: %s", got, wantU, done, logString(in.Log())))
		}
		in.Close()
	}
	// stored results are visible to every later task: a property bound to a variable is resolved anew for every request
	// the stored result is the value that was answered, whatever its kind (floats with many digits, large integers,
	// unicode, nested values)
	for i, v := range []any{1727308801.0, 1727308801.25, 0.1 + 0.2, 1e300, -2.5e-7, float32(0.5), int64(1) << 53, int64(math.MaxInt64), uint32(4000000000), "日本語 \u00a0 x", "", true, []any{1.5, "a", int64(16777217)}, map[string]any{"f": 16777217.0, "s": "z"}} {
		cs := fmt.Sprintf("result r1 = %#v (%T)", v, v)
		env.Current(cs)
		ty := "string"
		switch v.(type) {
		case float64, float32:
			ty = "float"
		case int64, uint32:
			ty = "integer"
		case bool:
			ty = "boolean"
		case []any:
			ty = "array"
		case map[string]any:
			ty = "object"
		}
		q := &Prog{}
		q.Node("start", "start")
		qt := q.Node("task", "T")
		qt.Ext = fmt.Sprintf(`<olive:results><olive:field name="r1" type="%s"/></olive:results>`, ty)
		q.Node("task", "A")
		q.Node("end", "end")
		q.Flow("start", "T", "")
		q.Flow("T", "A", "")
		q.Flow("A", "end", "")
		defs, err := ParseDefs(q.XML(""))
		must(err)
		in, err := StartInst(defs, InstOpt{})
		must(err)
		rep.Evaluations++
		rep.Nontrivial++
		rep.Count("result_value_kinds")
		if !in.Answer("T", tmoStep, bpmn.DoWithResults(map[string]any{"r1": v})) {
			rep.Violate("C08-results", cs, "T not requested")
			in.Close()
			continue
		}
		in.WaitUntil(tmoStep, func(l []Ev) bool { return countEv(l, "task", "A")+countEv(l, "task", "B")+countEv(l, "error", "*") > 0 })
		got, ok := in.P.Locator().GetVariable("r1")
		if !ok || !c16Same(v, got) {
			rep.Violate("C08-results", cs, fmt.Sprintf("case %d: the stored result reads back %#v (%T, present %v)", i, got, got, ok))
		}
		in.Close()
	}
	propertyPerRequest(env, rep, "C08-results", "C08-results")
	threeTokensOneTask(env, rep, "C08-first-wins", 4)
	implicitEndTask(env, rep, "C08-results")
	dataObjectsBetweenTasks(env, rep, "C08-results")
	dataObjectRewrittenInALoop(env, rep, "C08-results")
	env.WriteCases(rep, "_modes", "Corr.C08corr", "list nat * nat * nat * nat", citems, "c08_modes_mismatches")
	env.WriteReport(rep)
}

func c08ModeOracle(h []int, req, errs, out int) string {
	attempts := 0
	expReq, expErr, expOut := 0, 0, 2
	for _, a := range h {
		expReq++
		switch {
		case a == 0:
			expOut = 0
		case a == 1 || a == 2:
			expErr++
			expOut = 0
		case a == 3:
			expErr++
			expOut = 1
		default:
			expErr++
			r := a - 10
			if a == 9 {
				r = -1
			}
			if r == -1 || attempts < r {
				attempts++
				expOut = 2
				continue
			}
			expOut = 1
		}
		break
	}
	if expOut == 2 {
		expReq++ // the re-request that nobody answered
	}
	if req != expReq || errs != expErr || out != expOut {
		return fmt.Sprintf("observed requests=%d errors=%d outcome=%d, expected requests=%d errors=%d outcome=%d", req, errs, out, expReq, expErr, expOut)
	}
	return ""
}

// threeTokensOneTask: three tokens pass through one task node, entering and leaving in a non-LIFO order (two inside,
// the older one leaves, a third enters while the younger still waits): every request is answered once and every token
// goes on. Shared by C08 (every request decided by its own answer), C10 (the activity harness) and C17.
func threeTokensOneTask(env *Env, rep *Report, key string, rounds int) {
	for r := 0; r < rounds && !rep.Saturated(); r++ {
		cs := fmt.Sprintf("three tokens through one task: two inside, the older leaves, a third enters, then the other two leave (round %d)", r)
		env.Current(cs)
		p := &Prog{}
		p.Node("start", "start")
		p.Node("par", "F")
		p.Node("xor", "M")
		p.Node("task", "T")
		p.Node("end", "end")
		p.Flow("start", "F", "")
		for i := 1; i <= 3; i++ {
			g := fmt.Sprintf("G%d", i)
			p.Node("task", g)
			p.Flow("F", g, "")
			p.Flow(g, "M", "")
		}
		p.Flow("M", "T", "")
		p.Flow("T", "end", "")
		defs, err := ParseDefs(p.XML(""))
		must(err)
		in, err := StartInst(defs, InstOpt{})
		must(err)
		rep.Evaluations++
		rep.Nontrivial++
		rep.Count("three_tokens_one_task")
		problem := ""
		step := func(task string, wantT int) {
			if problem != "" {
				return
			}
			if !in.Answer(task, tmoStep) {
				problem = task + " could not be answered"
				return
			}
			if !in.WaitUntil(tmoStep, func(l []Ev) bool { return countEv(l, "task", "T") >= wantT }) {
				problem = fmt.Sprintf("after answering %s: T requested %d times, expected %d", task, countEv(in.Log(), "task", "T"), wantT)
			}
		}
		step("G1", 1)
		step("G2", 2)
		step("T", 2) // the older request
		if problem == "" && !in.WaitUntil(tmoStep, func(l []Ev) bool { return countEv(l, "visit", "end") >= 1 }) {
			problem = "the first token did not reach the end event after its answer"
		}
		step("G3", 3)
		step("T", 3)
		step("T", 3)
		if problem == "" && !in.WaitCease(tmoStep) {
			problem = fmt.Sprintf("every request answered once, the instance did not complete: the end event was reached %d times, expected 3", countEv(in.Log(), "visit", "end"))
		}
		if problem == "" {
			if e := countEv(in.Log(), "visit", "end"); e != 3 {
				problem = fmt.Sprintf("the end event was reached %d times, expected 3", e)
			}
		}
		if problem != "" {
			rep.Violate(key, cs, problem+"; log: "+logString(in.Log()))
		}
		in.Close()
	}
}

// implicitEndTask: a task without outgoing sequence flow ends its token; its answer counts like any other: the declared
// results are stored (also when the task is the last one inside a sub-process and a gateway behind the sub-process
// reads them), an error is traced and a retry handler is obeyed.
func implicitEndTask(env *Env, rep *Report, key string) {
	fail := func(cs, msg string, in *Inst) { rep.Violate(key, cs, msg+"; log: "+logString(in.Log())) }
	{
		cs := "start -> A -> B, B without outgoing flow, answered with its declared result y = 2"
		env.Current(cs)
		p := &Prog{}
		p.Node("start", "start")
		p.Node("task", "A")
		b := p.Node("task", "B")
		b.Results = []string{"y"}
		p.Flow("start", "A", "")
		p.Flow("A", "B", "")
		defs, err := ParseDefs(p.XML(""))
		must(err)
		in, err := StartInst(defs, InstOpt{Vars: map[string]any{"y": 1}})
		must(err)
		rep.Evaluations++
		rep.Nontrivial++
		rep.Count("implicit_end_task")
		if !in.Answer("A", tmoStep) || !in.Answer("B", tmoStep, bpmn.DoWithResults(map[string]any{"y": 2})) {
			fail(cs, "A or B not requested", in)
		} else if !in.WaitCease(tmoStep) {
			fail(cs, "both tasks answered, the instance did not complete", in)
		} else if v, _ := in.P.Locator().GetVariable("y"); fmt.Sprint(v) != "2" {
			fail(cs, fmt.Sprintf("y = %v after B's answer, expected 2", v), in)
		}
		in.Close()
	}
	{
		cs := "sub-process [T1 -> T2, T2 without outgoing flow, result ok] -> exclusive gateway routing on ok"
		env.Current(cs)
		p := &Prog{}
		p.Node("start", "start")
		h := p.Node("sub", "SP")
		h.Sub = &Prog{nflow: 700}
		h.Sub.Node("start", "hs")
		h.Sub.Node("task", "T1")
		t2 := h.Sub.Node("task", "T2")
		t2.Results = []string{"ok"}
		h.Sub.Flow("hs", "T1", "")
		h.Sub.Flow("T1", "T2", "")
		x := p.Node("xor", "X")
		p.Node("task", "OK")
		p.Node("task", "FALLBACK")
		p.Node("end", "end")
		p.Flow("start", "SP", "")
		p.Flow("SP", "X", "")
		p.Flow("X", "OK", "ok")
		x.Default = p.Flow("X", "FALLBACK", "").ID
		p.Flow("OK", "end", "")
		p.Flow("FALLBACK", "end", "")
		defs, err := ParseDefs(p.XML(""))
		must(err)
		in, err := StartInst(defs, InstOpt{Vars: map[string]any{"ok": false}})
		must(err)
		rep.Evaluations++
		rep.Nontrivial++
		rep.Count("implicit_end_task")
		if !in.Answer("T1", tmoStep) || !in.Answer("T2", tmoStep, bpmn.DoWithResults(map[string]any{"ok": true})) {
			fail(cs, "T1 or T2 not requested", in)
		} else if !in.Answer("OK", tmoStep) {
			fail(cs, "T2 answered ok = true: OK was not requested", in)
		} else if !in.WaitCease(tmoStep) {
			fail(cs, "the instance did not complete", in)
		} else if n := countEv(in.Log(), "task", "FALLBACK"); n != 0 {
			fail(cs, "FALLBACK was requested", in)
		}
		in.Close()
	}
	{
		cs := "start -> A -> B, B without outgoing flow, answered with an error and 'retry once', then without error"
		env.Current(cs)
		p := &Prog{}
		p.Node("start", "start")
		p.Node("task", "A")
		p.Node("task", "B")
		p.Flow("start", "A", "")
		p.Flow("A", "B", "")
		defs, err := ParseDefs(p.XML(""))
		must(err)
		in, err := StartInst(defs, InstOpt{})
		must(err)
		rep.Evaluations++
		rep.Nontrivial++
		rep.Count("implicit_end_task")
		ch := make(chan bpmn.ErrHandler, 1)
		ch <- bpmn.ErrHandler{Mode: bpmn.RetryMode, Retries: 1}
		if !in.Answer("A", tmoStep) || !in.Answer("B", tmoStep, bpmn.DoWithErrHandle(errors.New("boom"), ch)) {
			fail(cs, "A or B not requested", in)
		} else if !in.WaitUntil(tmoStep, func(l []Ev) bool { return countEv(l, "task", "B") >= 2 }) {
			fail(cs, "B was not requested again after the error answered with 'retry'", in)
		} else if !in.Answer("B", tmoStep) || !in.WaitCease(tmoStep) {
			fail(cs, "B answered without error, the instance did not complete", in)
		} else {
			errs := 0
			for _, e := range in.Log() {
				if e.K == "error" && strings.Contains(e.X, "TaskExecError") {
					errs++
				}
			}
			if errs != 1 || countEv(in.Log(), "task", "B") != 2 {
				fail(cs, fmt.Sprintf("%d error traces (expected 1), B requested %d times (expected 2)", errs, countEv(in.Log(), "task", "B")), in)
			}
		}
		in.Close()
	}
}

// dataObjectsBetweenTasks: a task writes a data object (a declared data output, answered with DoWithObjects), a later
// task reads it as a data input; written again, the next reader sees the new value. The same with a sub-process in
// the process (before the tasks, between them, never reached) and with the reader inside a sub-process.
func dataObjectsBetweenTasks(env *Env, rep *Report, key string) {
	for v := 0; v < 5; v++ {
		where := []string{"no sub-process", "a sub-process before the tasks", "a sub-process between the tasks", "a sub-process no token reaches", "the reader inside a sub-process"}[v]
		cs := "task W writes the data object 'order', task R reads it, W2 writes it again, R2 reads it; " + where
		env.Current(cs)
		p := &Prog{Raw: `<bpmn:dataObject id="order"/>`}
		wr := func(pr *Prog, id string) {
			n := pr.Node("task", id)
			n.Ext = `<olive:dataOutput name="order" targetRef="order"/>`
		}
		rd := func(pr *Prog, id string) {
			n := pr.Node("task", id)
			n.Ext = `<olive:dataInput name="in" targetRef="order"/>`
		}
		sub := func(id string, inner func(*Prog)) {
			h := p.Node("sub", id)
			h.Sub = &Prog{nflow: 700}
			h.Sub.Node("start", id+"s")
			prev := id + "s"
			if inner != nil {
				inner(h.Sub)
				h.Sub.Flow(prev, "R", "")
				prev = "R"
			}
			h.Sub.Node("end", id+"e")
			h.Sub.Flow(prev, id+"e", "")
		}
		p.Node("start", "start")
		chain := []string{"start"}
		add := func(id string) { chain = append(chain, id) }
		if v == 1 {
			sub("SP", nil)
			add("SP")
		}
		wr(p, "W")
		add("W")
		if v == 2 {
			sub("SP", nil)
			add("SP")
		}
		if v == 4 {
			sub("SR", func(in *Prog) { rd(in, "R") })
			add("SR")
		} else {
			rd(p, "R")
			add("R")
		}
		wr(p, "W2")
		add("W2")
		rd(p, "R2")
		add("R2")
		p.Node("end", "end")
		add("end")
		for i := 0; i+1 < len(chain); i++ {
			p.Flow(chain[i], chain[i+1], "")
		}
		if v == 3 {
			sub("SP", nil) // no incoming flow: never reached
		}
		defs, err := ParseDefs(p.XML(""))
		must(err)
		in, err := StartInst(defs, InstOpt{})
		must(err)
		rep.Evaluations++
		rep.Nontrivial++
		rep.Count("data_objects_between_tasks")
		problem := ""
		read := func(task string, want string) {
			if problem != "" {
				return
			}
			t := in.WaitTask(task, tmoStep)
			if t == nil {
				problem = task + " not requested"
				return
			}
			got := "absent"
			if it, ok := t.GetDataObjects()["in"]; ok && it != nil {
				got = fmt.Sprint(it.Value())
			}
			if got != want {
				problem = fmt.Sprintf("%s reads its data input 'in' = %s, expected %s", task, got, want)
			}
			t.Do()
		}
		write := func(task string, val any) {
			if problem == "" && !in.Answer(task, tmoStep, bpmn.DoWithObjects(map[string]any{"order": val})) {
				problem = task + " not requested"
			}
		}
		write("W", map[string]any{"id": 7})
		read("R", fmt.Sprint(schema.NewValue(map[string]any{"id": 7}).Value()))
		write("W2", "second")
		read("R2", "second")
		if problem == "" && !in.WaitCease(tmoStep) {
			problem = "all tasks answered, the instance did not complete"
		}
		if problem != "" {
			rep.Violate(key, cs, problem+"; log: "+logString(in.Log()))
		}
		in.Close()
	}
}

// the same reader asked again and again: W stores a data output, R reads it as its data input, a gateway sends the token
// round three times; every request of R carries what the W before it stored — with the object declared as a
// <dataObject> of the process and without any declaration (stored under the output's name alone), and with the reader
// supplied an initial object through WithDataObjects that W then replaces
func dataObjectRewrittenInALoop(env *Env, rep *Report, key string) {
	for v := 0; v < 3; v++ {
		how := []string{"declared as a data object", "not declared anywhere", "not declared, an initial one supplied with the instance"}[v]
		cs := "W writes the data output 'obj', R reads it, a gateway leads back to W, three rounds; 'obj' " + how
		env.Current(cs)
		p := &Prog{}
		if v == 0 {
			p.Raw = `<bpmn:dataObject id="obj"/>`
		}
		p.Node("start", "start")
		p.Node("task", "W").Ext = `<olive:dataOutput name="obj" targetRef="obj"/>`
		r := p.Node("task", "R")
		r.Ext = `<olive:dataInput name="in" targetRef="obj"/>`
		r.Results = []string{"again"}
		g := p.Node("xor", "G")
		p.Node("end", "end")
		p.Flow("start", "W", "")
		p.Flow("W", "R", "")
		p.Flow("R", "G", "")
		p.Flow("G", "W", "again == true")
		g.Default = p.Flow("G", "end", "").ID
		defs, err := ParseDefs(p.XML(""))
		must(err)
		opt := InstOpt{Vars: map[string]any{"again": false}}
		if v == 2 {
			opt.Opts = append(opt.Opts, bpmn.WithDataObjects(map[string]any{"obj": "initial"}))
		}
		in, err := StartInst(defs, opt)
		must(err)
		rep.Evaluations++
		rep.Nontrivial++
		rep.Count("data_object_rewritten_in_a_loop")
		problem := ""
		for round := 0; round < 3 && problem == ""; round++ {
			val := fmt.Sprintf("round-%d", round)
			if !in.Answer("W", tmoStep, bpmn.DoWithObjects(map[string]any{"obj": val})) {
				problem = fmt.Sprintf("W not requested in round %d", round)
				break
			}
			t := in.WaitTask("R", tmoStep)
			if t == nil {
				problem = fmt.Sprintf("R not requested in round %d", round)
				break
			}
			got := "absent"
			if it, ok := t.GetDataObjects()["in"]; ok && it != nil {
				got = fmt.Sprint(it.Value())
			}
			if got != val {
				problem = fmt.Sprintf("round %d: R is given its data input 'in' = %s; the W before it stored %s", round, got, val)
			}
			t.Do(bpmn.DoWithResults(map[string]any{"again": round < 2}))
		}
		if problem == "" && !in.WaitCease(tmoStep) {
			problem = "all tasks answered, the instance did not complete"
		}
		if problem != "" {
			rep.Violate(key, cs, problem+"; log: "+logString(in.Log()))
		}
		in.Close()
	}
}
