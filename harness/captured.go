package main

import (
	"fmt"
	"go/ast"
	"go/token"
	"os"
	"path/filepath"
	"sort"
	"strings"
)

// Captured-locals census (C17): local variables (and parameters) of the engine's functions that are shared
// between the function and its function literals, or between two literals, and are *modified* after their
// declaration in one of these contexts. A literal that is only ever run synchronously by its creator (called on the
// spot, deferred, handed to sync.Once.Do / sort.Slice and the like) is not a context of its own. Every access of
// such a variable in a context that may run on another goroutine must be synchronised: the context takes a lock
// (a call of Lock / RLock in the same literal or function body), or the variable's declared type synchronises
// itself (sync.*, atomic.*, channel), or the access is the operand of a sync/atomic call (&v).
//
// This is the closure counterpart of the ownership census of struct fields: the event-based gateway's
// `terminationChannels` (replaced by the winner's transformer while the losers' `terminate` read it) was of this kind.

type capturedAccess struct {
	Var     string // <dir>.<function>.<variable>
	Context string // "body" or "lit@<line>"
	Write   bool
	OK      bool
	Why     string
}

var syncCallees = map[string]bool{"Do": true, "Slice": true, "SliceStable": true, "Inspect": true, "Walk": true, "Search": true, "Range": true, "Map": true, "IndexFunc": true, "TrimFunc": true, "FieldsFunc": true}

func capturedCensus(c *factsCtx) (out []capturedAccess) {
	var dirs []string
	filepath.Walk(c.repo, func(p string, info os.FileInfo, err error) error {
		if err == nil && info.IsDir() {
			rel, _ := filepath.Rel(c.repo, p)
			if strings.HasPrefix(rel, ".git") || rel == "schema" || rel == "examples" || rel == "testdata" || rel == "model" {
				return filepath.SkipDir
			}
			if rel == "." || strings.HasPrefix(rel, "pkg") {
				dirs = append(dirs, rel)
			}
		}
		return nil
	})
	sort.Strings(dirs)
	for _, d := range dirs {
		files, _ := filepath.Glob(filepath.Join(c.repo, d, "*.go"))
		sort.Strings(files)
		for _, p := range files {
			if strings.HasSuffix(p, "_test.go") || verifOnly(p) {
				continue
			}
			rel, _ := filepath.Rel(c.repo, p)
			f := c.parse(rel)
			if f == nil {
				continue
			}
			for _, dcl := range f.Decls {
				fd, ok := dcl.(*ast.FuncDecl)
				if !ok || fd.Body == nil {
					continue
				}
				fn := fd.Name.Name
				if fd.Recv != nil && len(fd.Recv.List) > 0 {
					fn = strings.TrimPrefix(nodeText(c.fset, fd.Recv.List[0].Type), "*") + "." + fn
				}
				out = append(out, capturedInFunc(c, d+"."+fn, fd)...)
			}
		}
	}
	sort.Slice(out, func(i, j int) bool {
		if out[i].Var != out[j].Var {
			return out[i].Var < out[j].Var
		}
		return out[i].Context < out[j].Context
	})
	return
}

type capCtx struct {
	lit      *ast.FuncLit // nil: the function body
	sync     bool         // only run synchronously by the creator
	hasLock  bool
	name     string
	parentIx int
}

func capturedInFunc(c *factsCtx, fn string, fd *ast.FuncDecl) (out []capturedAccess) {
	// contexts: 0 = the body, then every function literal
	ctxs := []*capCtx{{name: "body", parentIx: -1}}
	litIx := map[*ast.FuncLit]int{}
	// parents for classification of literals
	var stack []ast.Node
	parent := map[ast.Node]ast.Node{}
	ast.Inspect(fd.Body, func(n ast.Node) bool {
		if n == nil {
			stack = stack[:len(stack)-1]
			return true
		}
		if len(stack) > 0 {
			parent[n] = stack[len(stack)-1]
		}
		stack = append(stack, n)
		return true
	})
	enclosing := func(n ast.Node) int {
		for p := parent[n]; p != nil; p = parent[p] {
			if l, ok := p.(*ast.FuncLit); ok {
				return litIx[l]
			}
		}
		return 0
	}
	ast.Inspect(fd.Body, func(n ast.Node) bool {
		l, ok := n.(*ast.FuncLit)
		if !ok {
			return true
		}
		cx := &capCtx{lit: l, name: fmt.Sprintf("lit@%d", c.fset.Position(l.Pos()).Line), parentIx: enclosing(l)}
		if call, ok := parent[l].(*ast.CallExpr); ok {
			if call.Fun == ast.Expr(l) {
				// called on the spot: synchronous unless it is a go statement
				if _, isGo := parent[call].(*ast.GoStmt); !isGo {
					cx.sync = true
				}
			} else {
				name := ""
				switch f := call.Fun.(type) {
				case *ast.SelectorExpr:
					name = f.Sel.Name
				case *ast.Ident:
					name = f.Name
				}
				if syncCallees[name] {
					cx.sync = true
				}
			}
		}
		litIx[l] = len(ctxs)
		ctxs = append(ctxs, cx)
		return true
	})
	if len(ctxs) == 1 {
		return nil
	}
	// a synchronous literal is part of its parent's context
	effective := func(ix int) int {
		for ix > 0 && ctxs[ix].sync {
			ix = ctxs[ix].parentIx
		}
		return ix
	}
	// locks per effective context
	ast.Inspect(fd.Body, func(n ast.Node) bool {
		if call, ok := n.(*ast.CallExpr); ok {
			if se, ok := call.Fun.(*ast.SelectorExpr); ok && (se.Sel.Name == "Lock" || se.Sel.Name == "RLock") {
				ctxs[effective(enclosing(call))].hasLock = true
			}
		}
		return true
	})
	// declarations: object -> (effective context of the declaration, type text)
	type acc struct {
		ctx    int
		write  bool
		atomic bool
		pos    token.Pos
	}
	accs := map[*ast.Object][]acc{}
	declCtx := map[*ast.Object]int{}
	declType := map[*ast.Object]string{}
	inBody := func(pos token.Pos) bool { return pos >= fd.Pos() && pos <= fd.End() }
	objOf := func(e ast.Expr) *ast.Object {
		for {
			switch x := e.(type) {
			case *ast.Ident:
				if x.Obj != nil && x.Obj.Kind == ast.Var {
					return x.Obj
				}
				return nil
			case *ast.ParenExpr:
				e = x.X
			default:
				return nil
			}
		}
	}
	declPos := func(o *ast.Object) token.Pos {
		switch d := o.Decl.(type) {
		case *ast.AssignStmt:
			return d.Pos()
		case *ast.ValueSpec:
			return d.Pos()
		case *ast.Field:
			return d.Pos()
		case *ast.RangeStmt:
			return d.Pos()
		}
		return token.NoPos
	}
	noteDecl := func(o *ast.Object) bool {
		if _, seen := declCtx[o]; seen {
			return true
		}
		p := declPos(o)
		if p == token.NoPos || !inBody(p) {
			return false
		}
		switch d := o.Decl.(type) {
		case *ast.Field:
			declType[o] = nodeText(c.fset, d.Type)
			// a parameter of a literal belongs to that literal
			declCtx[o] = 0
			for l, ix := range litIx {
				if d.Pos() >= l.Type.Pos() && d.End() <= l.Type.End() {
					declCtx[o] = effective(ix)
				}
			}
		case *ast.ValueSpec:
			if d.Type != nil {
				declType[o] = nodeText(c.fset, d.Type)
			} else if len(d.Values) == 1 {
				declType[o] = nodeText(c.fset, d.Values[0])
			}
			declCtx[o] = effective(enclosing(d))
		case *ast.AssignStmt:
			for i, l := range d.Lhs {
				if id, ok := l.(*ast.Ident); ok && id.Obj == o && len(d.Rhs) == len(d.Lhs) {
					declType[o] = nodeText(c.fset, d.Rhs[i])
				}
			}
			declCtx[o] = effective(enclosing(d))
		case *ast.RangeStmt:
			declCtx[o] = effective(enclosing(d))
		}
		return true
	}
	written := map[*ast.Ident]bool{}
	atomicUse := map[*ast.Ident]bool{}
	ast.Inspect(fd.Body, func(n ast.Node) bool {
		switch y := n.(type) {
		case *ast.AssignStmt:
			for _, l := range y.Lhs {
				switch lx := l.(type) {
				case *ast.Ident:
					if lx.Obj != nil && !(y.Tok == token.DEFINE && lx.Obj.Decl == ast.Node(y)) {
						written[lx] = true
					}
				case *ast.IndexExpr:
					if id, ok := lx.X.(*ast.Ident); ok {
						written[id] = true
					}
				}
			}
		case *ast.IncDecStmt:
			if id, ok := y.X.(*ast.Ident); ok {
				written[id] = true
			}
		case *ast.CallExpr:
			if id, ok := y.Fun.(*ast.Ident); ok && id.Name == "delete" && len(y.Args) > 0 {
				if m, ok := y.Args[0].(*ast.Ident); ok {
					written[m] = true
				}
			}
			if se, ok := y.Fun.(*ast.SelectorExpr); ok {
				if pk, ok := se.X.(*ast.Ident); ok && pk.Name == "atomic" {
					for _, a := range y.Args {
						if u, ok := a.(*ast.UnaryExpr); ok && u.Op == token.AND {
							if id, ok := u.X.(*ast.Ident); ok {
								atomicUse[id] = true
							}
						}
					}
				}
			}
		}
		return true
	})
	ast.Inspect(fd.Body, func(n ast.Node) bool {
		id, ok := n.(*ast.Ident)
		if !ok {
			return true
		}
		o := objOf(id)
		if o == nil || !noteDecl(o) {
			return true
		}
		if id.Pos() == o.Pos() {
			return true // the declaration itself
		}
		accs[o] = append(accs[o], acc{effective(enclosing(id)), written[id], atomicUse[id], id.Pos()})
		return true
	})
	var objs []*ast.Object
	for o := range accs {
		objs = append(objs, o)
	}
	sort.Slice(objs, func(i, j int) bool { return objs[i].Pos() < objs[j].Pos() })
	loopOf := func(n ast.Node) ast.Node {
		for p := parent[n]; p != nil; p = parent[p] {
			switch p.(type) {
			case *ast.ForStmt, *ast.RangeStmt:
				return p
			case *ast.FuncLit:
				return nil
			}
		}
		return nil
	}
	identAt := map[token.Pos]*ast.Ident{}
	ast.Inspect(fd.Body, func(n ast.Node) bool {
		if id, ok := n.(*ast.Ident); ok {
			identAt[id.Pos()] = id
		}
		return true
	})
	for _, o := range objs {
		as := accs[o]
		// literals (contexts of their own) that refer to the variable
		var users []*capCtx
		cset := map[int]bool{declCtx[o]: true}
		for _, a := range as {
			if !cset[a.ctx] && a.ctx != 0 && ctxs[a.ctx].lit != nil {
				users = append(users, ctxs[a.ctx])
			}
			cset[a.ctx] = true
		}
		if len(cset) < 2 {
			continue
		}
		// a write is late when a literal that uses the variable may already exist: the write is inside such a
		// literal (a context other than the declaring one), or textually after one, or in a loop that contains one
		late := func(a acc) bool {
			if !a.write {
				return false
			}
			if a.ctx != declCtx[o] {
				return true
			}
			for _, u := range users {
				if ctxs[a.ctx].lit == u.lit {
					continue
				}
				if u.lit.Pos() < a.pos {
					return true
				}
				if lp := loopOf(identAt[a.pos]); lp != nil && declPos(o) < lp.Pos() && u.lit.Pos() >= lp.Pos() && u.lit.End() <= lp.End() {
					return true
				}
			}
			return false
		}
		anyLate := false
		for _, a := range as {
			if late(a) {
				anyLate = true
			}
		}
		if !anyLate {
			continue
		}
		self := selfSyncType(strings.TrimPrefix(strings.TrimPrefix(declType[o], "&"), "make("))
		// one record per (context, write): synchronised only if every access of the group is
		type key struct {
			ctx   int
			write bool
		}
		recs := map[key]*capturedAccess{}
		var order []key
		for _, a := range as {
			if a.write && !late(a) {
				continue // initialisation before any literal exists
			}
			ok, why := false, "unsynchronised"
			switch {
			case self:
				ok, why = true, "self-synchronising type"
			case a.atomic:
				ok, why = true, "atomic operand"
			case ctxs[a.ctx].hasLock:
				ok, why = true, "context locks"
			}
			k := key{a.ctx, a.write}
			if r, seen := recs[k]; seen {
				if !ok && r.OK {
					r.OK, r.Why = false, why
				}
				continue
			}
			recs[k] = &capturedAccess{fn + "." + o.Name, ctxs[a.ctx].name, a.write, ok, why}
			order = append(order, k)
		}
		for _, k := range order {
			out = append(out, *recs[k])
		}
	}
	return
}

func init() {
	factGens = append(factGens, func(c *factsCtx) {
		ca := capturedCensus(c)
		c.out.WriteString("(* local variables shared between a function and its function literals and modified once a literal exists: (function.variable, context, writes, synchronised) (harness/captured.go) *)\nDefinition captured_accesses : list (string * string * bool * bool) := [\n")
		for i, a := range ca {
			sep := ";"
			if i+1 == len(ca) {
				sep = ""
			}
			fmt.Fprintf(&c.out, "  (%s, %s, %v, %v)%s\n", coqStr(a.Var), coqStr(a.Context), a.Write, a.OK, sep)
		}
		c.out.WriteString("].\n\n")
	})
	commands["captured"] = func(env *Env) {
		c := &factsCtx{repo: env.Repo, fset: token.NewFileSet()}
		for _, a := range capturedCensus(c) {
			fmt.Printf("%-70s %-10s write=%-5v ok=%-5v %s\n", a.Var, a.Context, a.Write, a.OK, a.Why)
		}
	}
}

// Run-loop census (C17): the ownership discipline speaks of "the owner goroutine" of a node — there must be one.
// Every `go x.run(...)` statement of the engine's packages, and how it is kept from running twice for one value:
//
//	0 inside a function literal handed to sync.Once.Do   1 in a constructor (new*/New*: the value is not shared yet)
//	2 in an entry point documented to be called once per value (runStartsOncePerValue)
//	3 in the body of `if x.CompareAndSwap(0, 1)` (an atomic test-and-set only the first caller passes)   9 none of these
type runStart struct {
	Type, Func string
	Class      int
}

// ProcessSet.StartAll: the caller starts a set once (a second StartAll would also start every process a second time)
var runStartsOncePerValue = map[string]bool{"ProcessSet.StartAll": true}

func runStartCensus(c *factsCtx) (out []runStart) {
	var dirs []string
	filepath.Walk(c.repo, func(p string, info os.FileInfo, err error) error {
		if err == nil && info.IsDir() {
			rel, _ := filepath.Rel(c.repo, p)
			if strings.HasPrefix(rel, ".git") || rel == "schema" || rel == "examples" || rel == "testdata" || rel == "model" {
				return filepath.SkipDir
			}
			if rel == "." || strings.HasPrefix(rel, "pkg") {
				dirs = append(dirs, rel)
			}
		}
		return nil
	})
	sort.Strings(dirs)
	for _, d := range dirs {
		files, _ := filepath.Glob(filepath.Join(c.repo, d, "*.go"))
		sort.Strings(files)
		for _, p := range files {
			if strings.HasSuffix(p, "_test.go") || verifOnly(p) {
				continue
			}
			rel, _ := filepath.Rel(c.repo, p)
			f := c.parse(rel)
			if f == nil {
				continue
			}
			for _, dcl := range f.Decls {
				fd, ok := dcl.(*ast.FuncDecl)
				if !ok || fd.Body == nil {
					continue
				}
				fn := fd.Name.Name
				recvT := ""
				if fd.Recv != nil && len(fd.Recv.List) > 0 {
					recvT = strings.TrimPrefix(nodeText(c.fset, fd.Recv.List[0].Type), "*")
					fn = recvT + "." + fn
				}
				// function literals handed to a Do(...) call
				inDo := map[*ast.FuncLit]bool{}
				ast.Inspect(fd.Body, func(n ast.Node) bool {
					if call, ok := n.(*ast.CallExpr); ok {
						if se, ok := call.Fun.(*ast.SelectorExpr); ok && se.Sel.Name == "Do" {
							for _, a := range call.Args {
								if l, ok := a.(*ast.FuncLit); ok {
									inDo[l] = true
								}
							}
						}
					}
					return true
				})
				// go statements in the body of an `if x.CompareAndSwap(...)`
				underCAS := map[*ast.GoStmt]bool{}
				ast.Inspect(fd.Body, func(n ast.Node) bool {
					if is, ok := n.(*ast.IfStmt); ok {
						if call, ok := is.Cond.(*ast.CallExpr); ok {
							if se, ok := call.Fun.(*ast.SelectorExpr); ok && se.Sel.Name == "CompareAndSwap" {
								for _, st := range is.Body.List {
									if g, ok := st.(*ast.GoStmt); ok {
										underCAS[g] = true
									}
								}
							}
						}
					}
					return true
				})
				var lits []*ast.FuncLit
				var walk func(n ast.Node)
				walk = func(n ast.Node) {
					ast.Inspect(n, func(x ast.Node) bool {
						switch y := x.(type) {
						case *ast.FuncLit:
							lits = append(lits, y)
							walk(y.Body)
							lits = lits[:len(lits)-1]
							return false
						case *ast.GoStmt:
							se, ok := y.Call.Fun.(*ast.SelectorExpr)
							if !ok || se.Sel.Name != "run" {
								return true
							}
							cls := 9
							for _, l := range lits {
								if inDo[l] {
									cls = 0
								}
							}
							if cls == 9 && (strings.HasPrefix(fd.Name.Name, "new") || strings.HasPrefix(fd.Name.Name, "New")) && fd.Recv == nil {
								cls = 1
							}
							if cls == 9 && runStartsOncePerValue[fn] {
								cls = 2
							}
							if cls == 9 && underCAS[y] {
								cls = 3
							}
							out = append(out, runStart{d + "." + nodeText(c.fset, se.X), fn, cls})
						}
						return true
					})
				}
				walk(fd.Body)
			}
		}
	}
	sort.Slice(out, func(i, j int) bool { return out[i].Func+out[i].Type < out[j].Func+out[j].Type })
	return
}

func init() {
	factGens = append(factGens, func(c *factsCtx) {
		rs := runStartCensus(c)
		if len(rs) < 10 {
			c.fail("run-loop census: only %d `go x.run(...)` statements found", len(rs))
			return
		}
		c.out.WriteString("(* every `go x.run(...)` statement of the engine: (receiver expression, function, class: 0 under sync.Once.Do / 1 in a constructor / 2 in an entry point called once per value / 3 under an atomic compare-and-swap / 9 unguarded) (harness/captured.go) *)\nDefinition run_starts : list (string * string * nat) := [\n")
		for i, a := range rs {
			sep := ";"
			if i+1 == len(rs) {
				sep = ""
			}
			fmt.Fprintf(&c.out, "  (%s, %s, %d)%s\n", coqStr(a.Type), coqStr(a.Func), a.Class, sep)
		}
		c.out.WriteString("].\n\n")
	})
	commands["runstarts"] = func(env *Env) {
		c := &factsCtx{repo: env.Repo, fset: token.NewFileSet()}
		for _, a := range runStartCensus(c) {
			fmt.Printf("%-40s %-40s class %d\n", a.Type, a.Func, a.Class)
		}
	}
}
