package main

import (
	"github.com/olive-io/bpmn/v2/pkg/tracing"
	"strings"
	"fmt"
	"math/rand"
	"time"

	bpmn "github.com/olive-io/bpmn/v2"
)

func init() { commands["c12"] = runC12 }

// blkTasksInLoop collects the task ids inside loop bodies
func blkTasksInLoop(b *Blk, inLoop bool, out map[int]int, n int) {
	if b.Kind == "loop" {
		inLoop, n = true, b.N
	}
	if b.Kind == "task" && inLoop {
		out[b.ID] = n
	}
	for _, k := range b.Kids {
		blkTasksInLoop(k, inLoop, out, n)
	}
}

// blkScript fixes, from one seed, the answer order and the writes of a run, so that the wrapped and the
// unwrapped program are driven identically
type blkScript struct {
	seed   int64
	inLoop map[int]int
}

func (s blkScript) funcs() (func(int) int, func(int, int) [4]int) {
	rng := rand.New(rand.NewSource(s.seed))
	choose := func(n int) int { return rng.Intn(n) }
	wrng := rand.New(rand.NewSource(s.seed * 7919))
	writes := func(task, nth int) [4]int {
		w := [4]int{-1, -1, -1, -1}
		h := rand.New(rand.NewSource(s.seed*1000003 + int64(task)*131 + int64(nth))) // independent of the answer order
		if h.Intn(3) == 0 {
			w[h.Intn(3)] = h.Intn(2)
		}
		if n, ok := s.inLoop[task]; ok {
			w[3] = b2i(nth < n)
		}
		_ = wrng
		return w
	}
	return choose, writes
}

func runC12(env *Env) {
	rep := &Report{Property: "C12",
		Rule: "seeded block programs (sequence, parallel, exclusive, loop; up to 7 tasks, nesting 3) with one block wrapped in 1..3 levels of embedded sub-process (the whole program, a parallel branch, a loop body, a single task ...); the wrapped and the unwrapped program are run under the same seeded answer order and variable writes; compared step by step: the set of pending task requests after every answer, completion, final variables; non-trivial = wrapped block is entered more than once or holds more than one task or is nested deeper than one level; distinct by (program, wrapped block, levels, script seed)"}
	rng := rand.New(rand.NewSource(env.Seed))
	nProg, nScripts := 14, 2
	if env.Thorough() {
		nProg, nScripts = 120, 4
	}
	var items []string
	fixed := []*Blk{
		{Kind: "sub", Kids: []*Blk{{Kind: "task", ID: 1}}},
		{Kind: "seq", Kids: []*Blk{{Kind: "task", ID: 1}, {Kind: "sub", Kids: []*Blk{{Kind: "sub", Kids: []*Blk{{Kind: "seq", Kids: []*Blk{{Kind: "task", ID: 2}, {Kind: "task", ID: 3}}}}}}}, {Kind: "task", ID: 4}}},
		{Kind: "par", Kids: []*Blk{{Kind: "sub", Kids: []*Blk{{Kind: "par", Kids: []*Blk{{Kind: "task", ID: 1}, {Kind: "task", ID: 2}}}}}, {Kind: "sub", Kids: []*Blk{{Kind: "task", ID: 3}}}}},
		{Kind: "loop", ID: 3, N: 3, Kids: []*Blk{{Kind: "sub", Kids: []*Blk{{Kind: "seq", Kids: []*Blk{{Kind: "task", ID: 1}, {Kind: "task", ID: 2}}}}}}},
		{Kind: "seq", Kids: []*Blk{{Kind: "loop", ID: 3, N: 2, Kids: []*Blk{{Kind: "seq", Kids: []*Blk{{Kind: "task", ID: 1}, {Kind: "sub", Kids: []*Blk{{Kind: "sub", Kids: []*Blk{{Kind: "task", ID: 2}}}}}}}}}, {Kind: "task", ID: 3}}},
	}
	var progs []*Blk
	progs = append(progs, fixed...)
	for i := 0; i < nProg; i++ {
		g := &blkGen{rng: rng}
		b := g.gen(4+rng.Intn(6), 3, true)
		progs = append(progs, g.wrap(b, 1+rng.Intn(3)))
	}
	for pi, wrapped := range progs {
		flat := wrapped.Flatten()
		inLoop := map[int]int{}
		blkTasksInLoop(flat, false, inLoop, 0)
		for s := 0; s < nScripts; s++ {
			if rep.Saturated() {
				break
			}
			var env0 [4]bool
			for i := 0; i < 3; i++ {
				env0[i] = rng.Intn(2) == 0
			}
			env0[3] = false
			sc := blkScript{seed: env.Seed*100000 + int64(pi)*100 + int64(s), inLoop: inLoop}
			cs := fmt.Sprintf("program %s, variables %v, script seed %d", wrapped, env0, sc.seed)
			env.Current(cs)
			ch, wr := sc.funcs()
			var sched []bpmn.Option
			if s%2 == 1 { // every other script: flows are created slowly, monitors run ahead of the tokens
				sched = append(sched, bpmn.WithIdGenerator(slowGen{2 * time.Millisecond}))
				cs += ", slow flow creation"
				env.Current(cs)
			}
			ow := RunBlk(wrapped, env0, ch, wr, 80, sched...)
			ch, wr = sc.funcs()
			of := RunBlk(flat, env0, ch, wr, 80)
			rep.Evaluations++
			rep.Count(fmt.Sprintf("steps_%d", len(of.steps)/4*4))
			if len(inLoop) > 0 || len(of.steps) > 1 {
				rep.Nontrivial++
			}
			if of.problem != "" {
				rep.Violate("C12-unwrapped-baseline", cs, "the unwrapped program itself misbehaves (C01): "+of.problem+"; log: "+logString(of.log))
				continue
			}
			if ow.problem != "" {
				rep.Violate("C12-inline", cs, "wrapped program: "+ow.problem+"; log: "+logString(ow.log))
				continue
			}
			if ow.CoqScript() != of.CoqScript() || !intsEq(ow.first, of.first) {
				rep.Violate("C12-inline", cs, fmt.Sprintf("wrapped run %s %s differs from unwrapped run %s %s", natList(ow.first), ow.CoqScript(), natList(of.first), of.CoqScript()))
			}
			if ow.vars != of.vars {
				rep.Violate("C12-inline", cs, fmt.Sprintf("final variables differ: wrapped %v, unwrapped %v", ow.vars, of.vars))
			}
			_, subs := BlkProgSubs(wrapped)
			items = append(items, ow.CoqCase(wrapped, env0, SubEvents(subs, ow.log)))
			if len(rep.Samples) < 4 && len(of.steps) > 2 {
				rep.Sample(fmt.Sprintf("%s -> first pending %v, steps %s, completed %v", cs, ow.first, ow.CoqScript(), ow.completed))
			}
		}
	}
	twoTokensOneSubProcess(env, rep, "C12-inline", 12)
	eventsBeforeEntering(env, rep, "C12-inline")
	// a host that takes its time per trace, and content that ends in a burst of traces (24 pass-through gateways behind
	// the task, two levels of sub-process): what happens inside is reported before the parent's token goes on — every
	// inner trace and the sub-processes' landmarks precede the parent's leave and the instance's cease-flow trace
	for rnd := 0; rnd < 3 && !rep.Saturated(); rnd++ {
		cs := fmt.Sprintf("start -> S1[S2[A -> 24 pass-through gateways -> end]] -> end, host taking 300 us per trace (round %d)", rnd)
		env.Current(cs)
		p := &Prog{}
		p.Node("start", "start")
		s1 := p.Node("sub", "S1")
		p.Node("end", "end")
		p.Flow("start", "S1", "")
		p.Flow("S1", "end", "")
		s1.Sub = &Prog{nflow: 500}
		s1.Sub.Node("start", "s1s")
		s2 := s1.Sub.Node("sub", "S2")
		s1.Sub.Node("end", "s1e")
		s1.Sub.Flow("s1s", "S2", "")
		s1.Sub.Flow("S2", "s1e", "")
		s2.Sub = &Prog{nflow: 600}
		s2.Sub.Node("start", "s2s")
		s2.Sub.Node("task", "A")
		s2.Sub.Flow("s2s", "A", "")
		prev := "A"
		for i := 0; i < 24; i++ {
			g := fmt.Sprintf("P%d", i)
			s2.Sub.Node("xor", g)
			s2.Sub.Flow(prev, g, "")
			prev = g
		}
		s2.Sub.Node("end", "s2e")
		s2.Sub.Flow(prev, "s2e", "")
		defs, err := ParseDefs(p.XML(""))
		must(err)
		in, err := StartInst(defs, InstOpt{Buf: 4, Raw: func(tracing.ITrace) { time.Sleep(300 * time.Microsecond) }})
		must(err)
		rep.Evaluations++
		rep.Nontrivial++
		rep.Count("slow_host")
		if !in.Answer("A", tmoStep) || !in.WaitCease(2*tmoStep) {
			rep.Violate("C12-inline", cs, "the instance did not run to completion; log: "+logString(in.Log()))
			in.Close()
			continue
		}
		time.Sleep(30 * time.Millisecond)
		l := in.Log()
		lastInner, leaveS1, cease, marks := -1, -1, -1, 0
		for i, e := range l {
			switch {
			case e.K == "visit" && (strings.HasPrefix(e.N, "P") || e.N == "s2e" || e.N == "s1e"):
				lastInner = i
			case e.K == "other" && strings.Contains(e.X, "ProcessLandMarkTrace"):
				lastInner = i
				marks++
			case e.K == "leave" && e.N == "S1" && leaveS1 < 0:
				leaveS1 = i
			case e.K == "cease" && cease < 0:
				cease = i
			}
		}
		if marks != 2 || leaveS1 < 0 || cease < 0 || lastInner > leaveS1 || lastInner > cease {
			rep.Violate("C12-inline", cs, fmt.Sprintf("landmarks %d (expected 2); the last trace from inside the sub-processes is trace %d, the parent's token leaves S1 at trace %d, cease-flow is trace %d: the parent went on before the content had reported; log: %s", marks, lastInner, leaveS1, cease, logString(l)))
		}
		in.Close()
	}
	env.WriteCases(rep, "", "Corr.C12corr", blkCaseType, items, "c12_mismatches")
	env.WriteReport(rep)
}

// twoTokensOneSubProcess (shared by C12 and C02)
// events delivered to an instance while its token still waits in front of the sub-process (nobody inside listens, the
// events concern nobody): wrapped or not, every delivery returns promptly, the task behind is requested when the one in
// front is answered, and the instance completes — a sub-process that is not entered yet takes no part in anything
func eventsBeforeEntering(env *Env, rep *Report, key string) {
	for _, levels := range []int{0, 1, 2} {
		for _, nev := range []int{2, 9, 40} {
			if rep.Saturated() {
				return
			}
			cs := fmt.Sprintf("start -> T1 -> [T2 in %d level(s) of sub-process] -> end; %d signals delivered while T1 is pending", levels, nev)
			env.Current(cs)
			body := &Prog{nflow: 300}
			body.Node("start", "bs")
			body.Node("task", "T2")
			body.Node("end", "be")
			body.Flow("bs", "T2", "")
			body.Flow("T2", "be", "")
			for l := 1; l < levels; l++ {
				w := &Prog{nflow: 300 + 10*l}
				w.Node("start", fmt.Sprintf("ws%d", l))
				w.Node("sub", fmt.Sprintf("W%d", l)).Sub = body
				w.Node("end", fmt.Sprintf("we%d", l))
				w.Flow(fmt.Sprintf("ws%d", l), fmt.Sprintf("W%d", l), "")
				w.Flow(fmt.Sprintf("W%d", l), fmt.Sprintf("we%d", l), "")
				body = w
			}
			p := &Prog{}
			p.Node("start", "start")
			p.Node("task", "T1")
			p.Flow("start", "T1", "")
			if levels == 0 {
				p.Node("task", "T2")
				p.Flow("T1", "T2", "")
				p.Node("end", "end")
				p.Flow("T2", "end", "")
			} else {
				p.Node("sub", "S").Sub = body
				p.Flow("T1", "S", "")
				p.Node("end", "end")
				p.Flow("S", "end", "")
			}
			defs, err := ParseDefs(p.XML(`<bpmn:signal id="noise" name="noise"/>`))
			must(err)
			in, err := StartInst(defs, InstOpt{})
			must(err)
			rep.Evaluations++
			rep.Nontrivial++
			rep.Count("events_before_entering")
			t1 := in.WaitTask("T1", tmoStep)
			if t1 == nil {
				rep.Violate(key, cs, "T1 not requested; log: "+logString(in.Log()))
				in.Close()
				continue
			}
			delivered := make(chan int, 1)
			go func() {
				for k := 0; k < nev; k++ {
					in.Signal("noise")
				}
				delivered <- nev
			}()
			select {
			case <-delivered:
			case <-time.After(tmoStep):
				rep.Violate(key, cs, fmt.Sprintf("delivering %d signals to the instance did not return within %v while the token waits in front of the sub-process; log: %s", nev, tmoStep, logString(in.Log())))
				t1.Do() // let the deliverer go
				in.Close()
				continue
			}
			t1.Do()
			if !in.Answer("T2", tmoStep) {
				rep.Violate(key, cs, "T2 was not requested after T1 was answered; log: "+logString(in.Log()))
				in.Close()
				continue
			}
			if !in.WaitCease(tmoStep) {
				rep.Violate(key, cs, "the instance did not complete; log: "+logString(in.Log()))
			}
			in.Close()
		}
	}
}

func twoTokensOneSubProcess(env *Env, rep *Report, key string, rounds int) {
	// two tokens in one sub-process at the same time (a fork leads into it twice): the activations run one after
	// the other, each runs the content, each hands its token back, and the instance completes only after both
	for rnd := 0; rnd < rounds && !rep.Saturated(); rnd++ {
		burst := rnd >= 4 // the content ends in a burst of traces: A is followed by a fork to eight end events
		cs := fmt.Sprintf("fork -> {S, G -> S}, S = start -> A -> end; second token enters while the first activation runs (round %d)", rnd)
		if burst {
			cs = fmt.Sprintf("fork -> {S, G -> S}, S = start -> A -> fork -> 8 end events; second token enters while the first activation runs (round %d)", rnd)
		}
		env.Current(cs)
		p := &Prog{}
		p.Node("start", "start")
		p.Node("par", "F")
		p.Node("task", "G")
		sn := p.Node("sub", "S")
		sn.Sub = &Prog{nflow: 700}
		sn.Sub.Node("start", "ss")
		sn.Sub.Node("task", "A")
		sn.Sub.Flow("ss", "A", "")
		if burst {
			sn.Sub.Node("par", "SF")
			sn.Sub.Flow("A", "SF", "")
			for k := 0; k < 8; k++ {
				sn.Sub.Node("end", fmt.Sprintf("se%d", k))
				sn.Sub.Flow("SF", fmt.Sprintf("se%d", k), "")
			}
		} else {
			sn.Sub.Node("end", "se")
			sn.Sub.Flow("A", "se", "")
		}
		p.Node("task", "Z")
		p.Node("end", "end")
		p.Flow("start", "F", "")
		p.Flow("F", "S", "")
		p.Flow("F", "G", "")
		p.Flow("G", "S", "")
		p.Flow("S", "Z", "")
		p.Flow("Z", "end", "")
		defs, err := ParseDefs(p.XML(""))
		must(err)
		var opts []bpmn.Option
		if rnd%2 == 1 {
			opts = append(opts, bpmn.WithIdGenerator(slowGen{time.Millisecond}))
		}
		in, err := StartInst(defs, InstOpt{Opts: opts})
		must(err)
		rep.Evaluations++
		rep.Nontrivial++
		rep.Count("two_tokens_one_subprocess")
		fail := func(msg string) {
			rep.Violate(key, cs, msg+"; log: "+logString(in.Log()))
		}
		step := func(task string, wantA, wantZ int) bool {
			if !in.Answer(task, tmoStep) {
				fail("task " + task + " was not requested")
				return false
			}
			ok := in.WaitUntil(tmoStep, func(l []Ev) bool { return countEv(l, "task", "A") >= wantA && countEv(l, "task", "Z") >= wantZ })
			time.Sleep(8 * time.Millisecond)
			l := in.Log()
			if !ok || countEv(l, "task", "A") != wantA || countEv(l, "task", "Z") != wantZ || countEv(l, "cease", "*") != 0 {
				fail(fmt.Sprintf("after answering %s: A requested %d times (expected %d), Z %d times (expected %d), cease-flow traces %d (expected 0)",
					task, countEv(l, "task", "A"), wantA, countEv(l, "task", "Z"), wantZ, countEv(l, "cease", "*")))
				return false
			}
			return true
		}
		in.WaitUntil(tmoStep, func(l []Ev) bool { return countEv(l, "task", "A") >= 1 && countEv(l, "task", "G") >= 1 })
		// G first: the second token reaches S while the first activation still waits for A
		if step("G", 1, 0) && step("A", 2, 1) && step("A", 2, 2) && step("Z", 2, 2) {
			in.Answer("Z", tmoStep)
			if !in.WaitCease(tmoStep) {
				fail("every task answered, the instance did not complete")
			}
		}
		in.Close()
	}
}
